package main

// Table loops — `for _, x := range <slice built in place> { … }`.
//
// A loop over a literal table is a finite conjunction written as a loop: leaving it by exhaustion means that, for every element
// e_i of the table, the body ran with x = e_i and came back to the loop header. The condition under which the body comes back
// to the header, instantiated for each element, therefore holds on the exhaustion edge. FACTS uses that (edgeCond) so that
//
//	for _, l := range [][]T{d.A, d.B} { if !check(l) { return false } }            and
//	for _, c := range []func() bool{d.validA, d.validB} { if !c() { return false } }
//
// yield the same path condition as the unrolled sequence of ifs.
//
// Soundness conditions (all checked, otherwise the loop is left alone and nothing is learnt from it):
//   - the table is a slice of a local array whose elements are stored once, at constant indices, before the slice is taken; the
//     slice value is only used for len() and for loads of the current element;
//   - the header carries the range index as its only phi (no other loop-carried value);
//   - no block of the loop stores to memory, updates a map, sends, defers or starts a goroutine (conditions of one iteration
//     cannot depend on what another iteration did).

import (
	"go/token"
	"go/types"
	"strings"

	"golang.org/x/tools/go/ssa"
)

type tableLoop struct {
	header, body, done *ssa.BasicBlock
	elems              []ssa.Value
	loads              []ssa.Value // loads of the current element inside the loop
	blocks             map[*ssa.BasicBlock]bool
}

var tableLoopMemo = map[*ssa.BasicBlock]*tableLoop{}
var tableLoopSeen = map[*ssa.BasicBlock]bool{}

// tableLoopAt recognises a table loop by its header block.
func tableLoopAt(h *ssa.BasicBlock) *tableLoop {
	if tableLoopSeen[h] {
		return tableLoopMemo[h]
	}
	tableLoopSeen[h] = true
	tl := recogniseTableLoop(h)
	tableLoopMemo[h] = tl
	return tl
}

func recogniseTableLoop(h *ssa.BasicBlock) *tableLoop {
	if len(h.Instrs) < 4 || len(h.Succs) != 2 {
		return nil
	}
	// phi k; k+1; k+1 < len(s); if
	var phi *ssa.Phi
	for _, in := range h.Instrs {
		if p, ok := in.(*ssa.Phi); ok {
			if phi != nil {
				return nil
			}
			phi = p
		}
	}
	if phi == nil {
		return nil
	}
	iff, ok := h.Instrs[len(h.Instrs)-1].(*ssa.If)
	if !ok {
		return nil
	}
	cmp, ok := iff.Cond.(*ssa.BinOp)
	if !ok || cmp.Op != token.LSS {
		return nil
	}
	inc, ok := cmp.X.(*ssa.BinOp)
	if !ok || inc.Op != token.ADD || inc.X != ssa.Value(phi) {
		return nil
	}
	if c, ok := inc.Y.(*ssa.Const); !ok || c.Value == nil || c.Value.ExactString() != "1" {
		return nil
	}
	// the phi: -1 from outside, k+1 from the back edges
	for i, e := range phi.Edges {
		if h.Dominates(h.Preds[i]) {
			if e != ssa.Value(inc) {
				return nil
			}
		} else if c, ok := e.(*ssa.Const); !ok || c.Value == nil || c.Value.ExactString() != "-1" {
			return nil
		}
	}
	ln, ok := cmp.Y.(*ssa.Call)
	if !ok {
		return nil
	}
	if b, ok := ln.Call.Value.(*ssa.Builtin); !ok || b.Name() != "len" || len(ln.Call.Args) != 1 {
		return nil
	}
	sl, ok := ln.Call.Args[0].(*ssa.Slice)
	if !ok || sl.Low != nil || sl.High != nil || sl.Max != nil {
		return nil
	}
	elems, ok := sliceLiteralElems(sl)
	if !ok || len(elems) == 0 || len(elems) > 16 {
		return nil
	}
	// the array: written only by the constant-index stores, each index once; read only through this slice
	al := sl.X.(*ssa.Alloc)
	if _, isArr := al.Type().Underlying().(*types.Pointer).Elem().Underlying().(*types.Array); !isArr {
		return nil
	}
	stores := 0
	for _, rf := range *al.Referrers() {
		switch x := rf.(type) {
		case *ssa.IndexAddr:
			if _, isC := x.Index.(*ssa.Const); !isC {
				return nil
			}
			for _, r2 := range *x.Referrers() {
				st, isSt := r2.(*ssa.Store)
				if !isSt || st.Addr != ssa.Value(x) {
					if _, isDbg := r2.(*ssa.DebugRef); isDbg {
						continue
					}
					return nil
				}
				if !st.Block().Dominates(sl.Block()) || inCycle(st.Block()) {
					return nil
				}
				stores++
			}
		case *ssa.Slice:
			if x != sl {
				return nil
			}
		case *ssa.DebugRef:
		default:
			return nil
		}
	}
	if stores != len(elems) {
		return nil
	}
	tl := &tableLoop{header: h, body: h.Succs[0], done: h.Succs[1], elems: elems, blocks: map[*ssa.BasicBlock]bool{}}
	// loop blocks: those on a cycle with the header
	scc := sccOf(h)
	if scc == nil || scc[tl.done] || !scc[tl.body] {
		return nil
	}
	tl.blocks = scc
	for _, rf := range *sl.Referrers() {
		switch x := rf.(type) {
		case *ssa.Call:
			if x != ln {
				// another len() of the table is harmless
				if b, ok := x.Call.Value.(*ssa.Builtin); !ok || b.Name() != "len" {
					return nil
				}
			}
		case *ssa.IndexAddr:
			if x.Index != ssa.Value(inc) || !scc[x.Block()] {
				return nil
			}
			for _, r2 := range *x.Referrers() {
				u, isLoad := r2.(*ssa.UnOp)
				if !isLoad || u.Op != token.MUL {
					if _, isDbg := r2.(*ssa.DebugRef); isDbg {
						continue
					}
					return nil
				}
				tl.loads = append(tl.loads, u)
			}
		case *ssa.DebugRef:
		default:
			return nil
		}
	}
	for b := range scc {
		for _, in := range b.Instrs {
			switch in.(type) {
			case *ssa.Store, *ssa.MapUpdate, *ssa.Send, *ssa.Go, *ssa.Defer:
				return nil
			case *ssa.Phi:
				if b != h {
					// a phi inside the body merges values of one iteration: fine
					continue
				}
			}
		}
	}
	return tl
}

// cloneFor returns an Origin that evaluates like o, with the loop's current element bound to the table's i-th element.
func (tl *tableLoop) cloneFor(o *Origin, i int) *Origin {
	c := &Origin{p: o.p, fn: o.fn, env: o.env, fvenv: o.fvenv, depth: o.depth, memo: map[ssa.Value]*Term{}, busy: map[ssa.Value]bool{},
		site: o.site, NoInline: o.NoInline}
	et := o.Of(tl.elems[i])
	for _, l := range tl.loads {
		// a copy: Of() sets Val on the memoised term, and the element's own term must keep pointing at the element
		t := *et
		t.Val = tl.elems[i]
		c.memo[l] = &t
	}
	return c
}

// unrolled: the conjunction, over the table's elements, of the condition under which the body returns to the header.
func (fa *Facts) unrolled(tl *tableLoop, o *Origin, depth int) *Formula {
	var conj []*Formula
	for i := range tl.elems {
		oi := tl.cloneFor(o, i)
		var disj []*Formula
		count, overflow := 0, false
		var path []*ssa.BasicBlock
		onPath := map[*ssa.BasicBlock]bool{}
		var dfs func(cur *ssa.BasicBlock, cj []*Formula)
		dfs = func(cur *ssa.BasicBlock, cj []*Formula) {
			if overflow {
				return
			}
			if cur == tl.header {
				count++
				if count > maxPaths {
					overflow = true
					return
				}
				disj = append(disj, fAnd(cj...))
				return
			}
			if onPath[cur] || !tl.blocks[cur] {
				return
			}
			onPath[cur] = true
			path = append(path, cur)
			for si, s := range cur.Succs {
				c := fTrue
				if iff, ok := cur.Instrs[len(cur.Instrs)-1].(*ssa.If); ok {
					c = fa.valueFormula(iff.Cond, oi, path, depth)
					if si == 1 {
						c = fNot(c)
					}
				}
				dfs(s, append(append([]*Formula(nil), cj...), c))
			}
			path = path[:len(path)-1]
			onPath[cur] = false
		}
		dfs(tl.body, nil)
		if overflow || len(disj) == 0 {
			continue // nothing learnt for this element
		}
		conj = append(conj, fOr(disj...))
	}
	return fAnd(conj...)
}

// summarisable: the loop can be replaced by its unrolled condition when a predicate's paths are enumerated: the only way out of
// the loop other than exhaustion is `return false`.
func (tl *tableLoop) summarisable() bool {
	if len(tl.done.Preds) != 1 {
		return false // a break reaches the done block without exhausting the table
	}
	seen := map[*ssa.BasicBlock]bool{}
	var walk func(b *ssa.BasicBlock) bool
	walk = func(b *ssa.BasicBlock) bool {
		if b == tl.header || seen[b] {
			return true
		}
		seen[b] = true
		if b == tl.done {
			return false
		}
		if len(b.Instrs) > 0 {
			if ret, ok := b.Instrs[len(b.Instrs)-1].(*ssa.Return); ok {
				if len(ret.Results) != 1 {
					return false
				}
				c, isC := ret.Results[0].(*ssa.Const)
				return isC && c.Value != nil && c.Value.String() == "false"
			}
			if _, ok := b.Instrs[len(b.Instrs)-1].(*ssa.Panic); ok {
				return false
			}
		}
		for _, s := range b.Succs {
			if !walk(s) {
				return false
			}
		}
		return true
	}
	return walk(tl.body)
}

// closureTarget resolves a called function value that is a closure over a bound method, a function literal or a plain function:
// the function whose body decides the call, and the terms of its leading arguments (receiver) or free variables.
func (fa *Facts) closureTarget(o *Origin, fv ssa.Value) (callee *ssa.Function, recv []*Term, fvs []*Term, ok bool) {
	t := o.Of(fv)
	var v ssa.Value = fv
	if t != nil && t.Val != nil {
		v = t.Val
	}
	for {
		if ct, isCT := v.(*ssa.ChangeType); isCT {
			v = ct.X
			continue
		}
		break
	}
	switch x := v.(type) {
	case *ssa.Function:
		return x, nil, nil, true
	case *ssa.MakeClosure:
		f := x.Fn.(*ssa.Function)
		if x.Parent() != o.fn {
			return nil, nil, nil, false
		}
		if strings.HasPrefix(f.Synthetic, "bound method wrapper") {
			m, isM := f.Object().(*types.Func)
			if !isM || len(x.Bindings) != 1 {
				return nil, nil, nil, false
			}
			target := fa.p.SSA.FuncValue(m)
			if target == nil {
				return nil, nil, nil, false
			}
			return target, []*Term{o.Of(x.Bindings[0])}, nil, true
		}
		for _, b := range x.Bindings {
			if al, isAl := b.(*ssa.Alloc); isAl {
				fvs = append(fvs, &Term{Op: "addr", Args: []*Term{o.allocContent(al, x, nil)}})
			} else {
				fvs = append(fvs, o.Of(b))
			}
		}
		return f, nil, fvs, true
	}
	return nil, nil, nil, false
}

// callsOnlyStaticModuleFuncs: every call in fn is a builtin or a static call of a module function (or a function of the pure
// table) that takes no sdk.Context.
func callsOnlyStaticModuleFuncs(fn *ssa.Function) bool {
	for _, b := range fn.Blocks {
		for _, in := range b.Instrs {
			c, ok := in.(ssa.CallInstruction)
			if !ok {
				continue
			}
			cc := c.Common()
			if cc.IsInvoke() {
				return false
			}
			if _, isB := cc.Value.(*ssa.Builtin); isB {
				continue
			}
			sc := cc.StaticCallee()
			if sc == nil || (!InModule(sc) && !pureCallees[FuncName(sc)]) {
				return false
			}
			for _, a := range cc.Args {
				if strings.HasSuffix(a.Type().String(), "types.Context") {
					return false
				}
			}
		}
	}
	return true
}

// indexFuncContract: for a comparison of idx := slices.IndexFunc(s, pred) with 0 or -1, records the library contract
// "idx >= 0 ⇒ pred(s[idx])" (pred being a function literal or function of the module whose body is a summarisable predicate).
func (fa *Facts) indexFuncContract(x *ssa.BinOp, o *Origin, a, b *Term, depth int) {
	var call *ssa.Call
	var c *ssa.Const
	callLeft := false
	if cl, ok := x.X.(*ssa.Call); ok {
		call, callLeft = cl, true
		c, _ = x.Y.(*ssa.Const)
	} else if cl, ok := x.Y.(*ssa.Call); ok {
		call = cl
		c, _ = x.X.(*ssa.Const)
	}
	if call == nil || c == nil || c.Value == nil || len(call.Call.Args) != 2 {
		return
	}
	sc := call.Call.StaticCallee()
	if sc == nil || !strings.HasPrefix(FuncName(sc), "slices.IndexFunc[") {
		return
	}
	idx, k := a, b
	if !callLeft {
		idx, k = b, a
	}
	var atom, found *Formula
	switch cv := c.Value.ExactString(); {
	case cv == "0" && (x.Op == token.LSS && callLeft || x.Op == token.GEQ && callLeft || x.Op == token.GTR && !callLeft || x.Op == token.LEQ && !callLeft):
		atom = cmpAtom("<", idx, k) // idx < 0
		found = fNot(atom)
	case cv == "-1" && (x.Op == token.EQL || x.Op == token.NEQ):
		atom = cmpAtom("==", a, b)
		found = fNot(atom)
	case cv == "-1" && (x.Op == token.GTR && callLeft || x.Op == token.LEQ && callLeft || x.Op == token.LSS && !callLeft || x.Op == token.GEQ && !callLeft):
		atom = cmpAtom("<", k, idx) // -1 < idx
		found = atom
	default:
		return
	}
	if _, done := fa.impl[atom.Atom]; done {
		return
	}
	g, recv, fvs, ok := fa.closureTarget(o, call.Call.Args[1])
	if !ok || !InModule(g) || g.Blocks == nil || len(recv)+1 != len(g.Params) {
		return
	}
	elem := &Term{Op: "index", Args: []*Term{o.Of(call.Call.Args[0]), idx}}
	S := fa.predicateSummaryArgs(g, append(append([]*Term(nil), recv...), elem), fvs, fa.p.Pos(call.Pos()), o, depth+1)
	if S == nil || len(S.Atoms()) > 8 {
		return
	}
	if fa.impl == nil {
		fa.impl = map[string]implAxiom{}
	}
	fa.impl[atom.Atom] = implAxiom{found: found, S: S}
}
