package main

import (
	"fmt"
	"go/types"
	"sort"
	"strings"

	"golang.org/x/tools/go/ssa"
)

func init() { register("C10", checkC10) }

// C10 — restart equivalence (the repository's share): no consensus-relevant state outside the mounted stores.
func checkC10(p *Prog, r *Report) {
	r.Explain = "Decided statically: the only thing the repository itself can get wrong about restart equivalence is keeping consensus-relevant state somewhere other than the mounted KV stores (the SDK discards uncommitted work and reloads committed stores; process memory is lost on restart and is NOT rolled back with a failed transaction or a discarded block). D1 no-hidden-state-channel: over the module functions reachable from the block-processing entry points (handlers, ValidateBasic/GetSigners, Begin/EndBlock, InitGenesis, upgrade handlers), no package-level variable of the module and no field of a long-lived module struct (keeper, msg server, app module) reached through a pointer is both written (outside init) and read; read-only configuration fields and write-only metrics do not trip the rule (control: init-time writes are found). D2 every keys[<const>] handed to a keeper constructor and later used for ctx.KVStore names a key that GenerateKeys creates; the whole key map is mounted; LoadLatestVersion runs under loadLatest. D3 code in scope performs no file or network I/O. D2b no *MemoryStoreKey / *TransientStoreKey value is an argument of a call into the module's own packages, and module code outside app/ neither creates such keys nor opens a transient store; D2c an sdk.Context or a raw committed store is obtained only by ExportAppStateAndValidators (start-up writes nothing outside a block)."
	r.NotDec = []string{"the behaviour of stopping and restarting itself (baseapp deliverState discard, IAVL versioning, LoadLatestVersion)", "crash points inside Commit"}
	r.Trusted = []string{"cosmos-sdk baseapp, store/rootmulti, IAVL"}
	kp := func(rule, rest string) string { return rule + ":C10:" + rest }

	entries := consensusEntries(p)
	r.Floor("consensus-entry-points", len(entries), 14+28+12)
	scope, _ := moduleScope(p, entries)
	r.Count("functions-in-consensus-scope", len(scope))
	// D2d restarting at an upgrade height: the stores are loaded through the upgrade descriptors, which must account for every
	// mounted store
	if wd := BuildWire(p); len(wd.Upgrades) > 0 {
		checkStoreDescriptors(p, r, kp, wd)
		// … and a restarted node has a handler for every upgrade the chain has completed (x/upgrade checks it in the first
		// BeginBlock of every process) and a store loader for every planned one
		for _, mname := range []string{"setupUpgradeHandlers", "setupUpgradeStoreLoaders"} {
			if fn := p.Method(Rel("app"), "App", mname); fn != nil {
				r.Check(upgradesLoopCoversAll(p, fn, mname == "setupUpgradeStoreLoaders"), kp("WIRE", "app."+mname+"#ranges-over-Upgrades"), "the set-up loop iterates the whole Upgrades slice", p.FnPos(fn),
					"every descriptor is visited", mname+" does not visit every element of Upgrades: a node restarted after the omitted upgrade has no handler for it and panics in its first BeginBlock, while a node that kept running goes on")
			}
		}
	}
	// D1c the configuration the application computes at start-up does not depend on map iteration order (a restarted process
	// iterates its maps in another order than the one it replaces)
	checkWiringMapRanges(p, r, kp)
	checkReplayedBlockSeesSameInputs(p, r, kp, scope)
	checkNoProcessMemoryRegistrationInBlocks(p, r, kp, scope)
	// D1b … nor in process-wide registries or long-lived objects of other modules (lost on restart, never rolled back)
	checkProcessWideState(p, r, kp, scope)
	channels, writes := hiddenStateChannels(p, scope, scope)
	var locs []string
	for l := range channels {
		locs = append(locs, l)
	}
	sort.Strings(locs)
	for _, l := range locs {
		ws, rs := channels[l][0], channels[l][1]
		r.Fail(kp("STATE", "hidden-state-channel:"+l), "no memory outside the KV stores is both written and read back by block-processing code", p.Pos(ws[0].Instr.Pos()),
			fmt.Sprintf("%s is written (%s) and read (%s) by block-processing code: this state is not in any store — it is lost on restart, not rolled back when a transaction or block is discarded, and differs between nodes with different histories", l, describeAccess(p, ws[0]), describeAccess(p, rs[0])))
	}
	if len(locs) == 0 {
		r.OK(kp("STATE", "hidden-state-channel#none"), "no memory outside the KV stores is both written and read back by block-processing code", "x/*",
			fmt.Sprintf("%d functions in scope; %d writes to long-lived memory outside init (write-only), 0 locations written and read", len(scope), len(writes)))
	}
	// D1b objects outside the module consulted without a Context: what they answer is process memory, not committed state
	{
		bad, allowed := contextFreeForeignCalls(p, scope)
		for _, fc := range bad {
			r.Fail(kp("STATE", "context-free-foreign-object:"+fc.Loc+"→"+fc.Name+"@"+FuncName(fc.Fn)), "everything block processing depends on is in a committed store: objects implemented outside the module are consulted with a Context (reviewed exceptions: the codecs, the params subspace table)", p.Pos(fc.Instr.Pos()),
				fmt.Sprintf("%s calls %s on %s (a %s held by a long-lived struct) without a Context: the answer is not read from a committed store at the current block, it lives in the process (a value set by an earlier block is gone after a restart, so a restarted node processes the next block differently from one that kept running)", FuncName(fc.Fn), fc.Name, fc.Loc, fc.Recv))
		}
		if len(bad) == 0 {
			r.OK(kp("STATE", "context-free-foreign-object#none"), "everything block processing depends on is in a committed store: objects implemented outside the module are consulted with a Context (reviewed exceptions: the codecs, the params subspace table)", "x/*, app/*",
				fmt.Sprintf("%d functions in scope; %d context-free calls on held foreign objects, all on reviewed receiver types", len(scope), len(allowed)))
		}
		r.Floor("context-free-calls-on-reviewed-foreign-objects", len(allowed), 2)
	}
	for _, w := range writes {
		if _, isCh := channels[w.Loc]; !isCh {
			r.Note("write-only long-lived location %s (%s) — not a state channel", w.Loc, describeAccess(p, w))
		}
	}
	// control: the matcher sees init-time writes
	nInit := 0
	for _, a := range LAccesses(p, p.ModFuncs) {
		if a.Write && isInitFunc(a.Fn) {
			nInit++
		}
	}
	// package initialisers are synthetic and not in ModFuncs: count stores to module globals there
	for _, root := range p.Roots {
		if sp := p.SSA.Package(root.Types); sp != nil && strings.HasPrefix(root.PkgPath, ModPath) {
			if initFn := sp.Func("init"); initFn != nil {
				for _, b := range initFn.Blocks {
					for _, in := range b.Instrs {
						if st, ok := in.(*ssa.Store); ok {
							if g, ok := st.Addr.(*ssa.Global); ok && InModulePkg(g.Pkg) {
								nInit++
							}
						}
					}
				}
			}
		}
	}
	r.Floor("control:init-time-global-writes", nInit, 10)

	// D2 wiring
	w := BuildWire(p)
	for _, pr := range w.Problems {
		r.Undecided(kp("WIRE", "config#"+pr), "application configuration must be a literal the checker can evaluate", "app/", pr)
	}
	ops := p.StoreOps()
	usedRoots := map[string]bool{}
	for _, so := range ops {
		usedRoots[so.KeyRoot] = true
	}
	nKeys := 0
	for _, ku := range w.KeyUses {
		if ku.Map != "keys" || !strings.HasPrefix(ku.Callee, "x/") {
			continue
		}
		nKeys++
		key := kp("WIRE", fmt.Sprintf("keys[%s]→%s#%d", ku.Name, ku.Callee, ku.Arg))
		if has(w.StoreKeys, ku.Name) {
			r.OK(key, "every store key a custom keeper is built with is created (and therefore mounted)", p.Pos(ku.Pos), ku.Name+" ∈ NewKVStoreKeys")
			continue
		}
		// a missing map entry is a nil key: harmless only if the keeper never uses that field for ctx.KVStore
		field := constructorField(p, ku.Callee, ku.Arg)
		root := ""
		if field != "" {
			pkg := ku.Callee[:strings.LastIndex(ku.Callee, ".")]
			root = pkg + ".Keeper." + field
		}
		if field == "<unused parameter>" {
			r.OK(key, "a store key that is not created must never be used to open a store", p.Pos(ku.Pos),
				fmt.Sprintf("keys[%q] does not exist (nil) and %s ignores that parameter", ku.Name, ku.Callee))
			continue
		}
		if root != "" && !usedRoots[root] {
			r.OK(key, "a store key that is not created must never be used to open a store", p.Pos(ku.Pos),
				fmt.Sprintf("keys[%q] does not exist (nil) but the field %s it is stored in is never passed to ctx.KVStore", ku.Name, root))
			r.Note("%s receives keys[%q], which GenerateKeys does not create (nil); the field %s is unused", ku.Callee, ku.Name, root)
		} else {
			r.Fail(key, "a store key that is not created must never be used to open a store", p.Pos(ku.Pos),
				fmt.Sprintf("keys[%q] is not created by GenerateKeys (nil key) and %s uses it (field %q) to open a KV store: the store is not mounted / panics at first access", ku.Name, ku.Callee, field))
		}
	}
	r.Floor("custom-keeper-store-keys", nKeys, 4)
	// whole map mounted, latest version loaded
	if newFn := p.Func(Rel("app"), "New"); newFn != nil {
		o := NewOrigin(p, newFn)
		okMount, okLoad := false, false
		for _, cs := range callSites(newFn) {
			if strings.HasSuffix(cs.Name, "BaseApp).MountKVStores") && unconditionalOnSuccess(newFn, cs.Instr, o) {
				if c, ok := cs.Instr.Common().Args[1].(*ssa.Call); ok && strings.HasSuffix(calleeName(&c.Call), "GetKVStoreKey") {
					okMount = true
				}
			}
			if strings.HasSuffix(cs.Name, "BaseApp).LoadLatestVersion") {
				okLoad = true
			}
		}
		r.Check(okMount, kp("WIRE", "app.New→MountKVStores(all keys)"), "every created store key is mounted", p.FnPos(newFn), "MountKVStores(app.GetKVStoreKey()) on every path", "the key map is not mounted unconditionally")
		r.Check(okLoad, kp("WIRE", "app.New→LoadLatestVersion"), "the committed state is loaded on start", p.FnPos(newFn), "LoadLatestVersion called", "LoadLatestVersion is never called")
		if gk := p.Method(Rel("app/keepers"), "AppKeepersWithKey", "GetKVStoreKey"); gk != nil {
			ok := false
			go2 := NewOrigin(p, gk)
			for _, ret := range returnsOf(gk) {
				t := go2.Of(ret.Results[0])
				ok = t.Op == "field" && t.Name == "keys"
			}
			r.Check(ok, kp("WIRE", "GetKVStoreKey=keys"), "the mounted map is the map the keepers took their keys from", p.FnPos(gk), "returns appKeepers.keys", "GetKVStoreKey does not return the keys map")
		}
	}
	checkPersistentStoresOnly(p, r, kp, "state kept there is lost by a node that restarts and kept by one that does not")

	// D2e no per-file language downgrade (langver.go): the store loader's `&u.StoreUpgrades` relies on per-iteration loop variables
	checkNoLanguageDowngrade(p, r, "C10")
	// D2f the bytes a store hands out are not modified in place (storeget.go)
	checkStoreGetNotModified(p, r, "C10")

	checkStartupCreatesNoContext(p, r, kp)

	// D2d the only store loader the application installs is the SDK's UpgradeStoreLoader (which applies store changes exactly at
	// the plan height and is the default loader at every other start): a home-made loader decides what a restart loads
	nLoader := 0
	for _, fn := range p.ModFuncs {
		if !InPkgs(fn, "app") {
			continue
		}
		fo := NewOrigin(p, fn)
		for _, cs := range callSites(fn) {
			if !strings.HasSuffix(cs.Name, "baseapp.BaseApp).SetStoreLoader") || len(cs.Instr.Common().Args) < 2 {
				continue
			}
			nLoader++
			t := fo.Of(cs.Instr.Common().Args[1])
			r.Check(t.IsCall("upgrade/types.UpgradeStoreLoader"), kp("WIRE", "SetStoreLoader="+FuncName(fn)+"#sdk-loader"), "the store loader installed by the application is x/upgrade's UpgradeStoreLoader", p.Pos(cs.Instr.Pos()),
				"SetStoreLoader(upgradetypes.UpgradeStoreLoader(height, upgrades))", "the application installs its own store loader ("+clip(t.String(), 120)+"): which stores a restart adds, renames or deletes — and at which heights — is no longer x/upgrade's decision")
		}
	}
	r.Count("SetStoreLoader-sites", nLoader)

	// D3 no file / network I/O in scope
	bad := ""
	for _, fn := range scope {
		for _, cs := range callSites(fn) {
			n := cs.Name
			if strings.HasPrefix(n, "os.") && (strings.Contains(n, "Create") || strings.Contains(n, "Open") || strings.Contains(n, "Write") || strings.Contains(n, "Remove") || strings.Contains(n, "Mkdir")) ||
				strings.HasPrefix(n, "net.") || strings.HasPrefix(n, "net/http.") || strings.HasPrefix(n, "io/ioutil.Write") {
				bad = n + " in " + FuncName(fn) + " at " + p.Pos(cs.Instr.Pos())
			}
		}
	}
	r.Check(bad == "", kp("STATE", "no-file-or-network-io-in-scope"), "block-processing code keeps no state in files or remote services", "x/*", "no os/net calls in scope", "I/O in block processing: "+bad)
}

// constructorField: the field of the returned keeper that parameter #arg of constructor `callee` is stored into.
func constructorField(p *Prog, callee string, arg int) string {
	i := strings.LastIndex(callee, ".")
	if i < 0 {
		return ""
	}
	fn := p.Func(Rel(callee[:i]), callee[i+1:])
	if fn == nil || arg >= len(fn.Params) {
		return ""
	}
	prm := fn.Params[arg]
	// a parameter the constructor does not use at all (kept for signature compatibility, `_ storetypes.StoreKey`)
	unused := true
	if refs := prm.Referrers(); refs != nil {
		for _, rf := range *refs {
			if _, isDbg := rf.(*ssa.DebugRef); !isDbg {
				unused = false
			}
		}
	}
	if unused {
		return "<unused parameter>"
	}
	if refs := prm.Referrers(); refs != nil {
		for _, rf := range *refs {
			switch x := rf.(type) {
			case *ssa.Store:
				if fa, ok := x.Addr.(*ssa.FieldAddr); ok {
					return fieldName(fa.X.Type(), fa.Field)
				}
			case *ssa.MakeInterface, *ssa.ChangeInterface:
				if vr := x.(ssa.Value).Referrers(); vr != nil {
					for _, r2 := range *vr {
						if st, ok := r2.(*ssa.Store); ok {
							if fa, ok := st.Addr.(*ssa.FieldAddr); ok {
								return fieldName(fa.X.Type(), fa.Field)
							}
						}
					}
				}
			}
		}
	}
	return ""
}

// nonPersistentKeyType reports whether v (looking through interface conversions) is a *MemoryStoreKey or *TransientStoreKey,
// or a map/slice of them.
func nonPersistentKeyType(v ssa.Value) string {
	for {
		switch x := v.(type) {
		case *ssa.MakeInterface:
			v = x.X
			continue
		case *ssa.ChangeInterface:
			v = x.X
			continue
		}
		break
	}
	var walk func(t types.Type, d int) string
	walk = func(t types.Type, d int) string {
		if d > 3 {
			return ""
		}
		switch x := t.(type) {
		case *types.Pointer:
			return walk(x.Elem(), d+1)
		case *types.Map:
			return walk(x.Elem(), d+1)
		case *types.Slice:
			return walk(x.Elem(), d+1)
		case *types.Named:
			if x.Obj().Pkg() != nil && strings.HasSuffix(x.Obj().Pkg().Path(), "store/types") {
				if x.Obj().Name() == "MemoryStoreKey" || x.Obj().Name() == "TransientStoreKey" {
					return "*" + x.Obj().Name()
				}
			}
		}
		return ""
	}
	return walk(v.Type(), 0)
}

// checkPersistentStoresOnly (shared by C09, C10, C20): the module's keepers work on committed, versioned KV stores only.
func checkPersistentStoresOnly(p *Prog, r *Report, kp func(string, string) string, consequence string) {
	// D2b persistent stores only: nothing of type *MemoryStoreKey / *TransientStoreKey is handed to the module's own keepers, and the
	// module's keepers never open a transient store. A memory store is empty after every restart and a transient store after every
	// commit, so state kept there differs between a restarted node and one that kept running.
	nArgs, nCtl := 0, 0
	for _, fn := range p.ModFuncs {
		if InPkgs(fn, "types/testsuite") {
			continue
		}
		for _, cs := range callSites(fn) {
			if strings.HasSuffix(cs.Name, "types.Context).TransientStore") && !InPkgs(fn, "app") {
				r.Fail(kp("STATE", "transient-store-use:"+FuncName(fn)), "module state lives in committed KV stores only", p.Pos(cs.Instr.Pos()),
					FuncName(fn)+" opens a transient store: its content is dropped at every commit and is empty after a restart")
			}
			if (strings.HasSuffix(cs.Name, "types.NewMemoryStoreKey") || strings.HasSuffix(cs.Name, "types.NewTransientStoreKey")) && !InPkgs(fn, "app") {
				r.Fail(kp("STATE", "non-persistent-key-created:"+FuncName(fn)), "module state lives in committed KV stores only", p.Pos(cs.Instr.Pos()),
					FuncName(fn)+" creates a memory/transient store key")
			}
			if cs.Callee == nil || !InModule(cs.Callee) || InPkgs(cs.Callee, "app") {
				for _, a := range cs.Instr.Common().Args {
					if nonPersistentKeyType(a) != "" {
						nCtl++ // control: SDK keepers (capability, params) do receive such keys
					}
				}
				continue
			}
			for i, a := range cs.Instr.Common().Args {
				nArgs++
				if kind := nonPersistentKeyType(a); kind != "" {
					r.Fail(kp("WIRE", fmt.Sprintf("non-persistent-key→%s#%d", FuncName(cs.Callee), i)), "module state lives in committed KV stores only", p.Pos(cs.Instr.Pos()),
						fmt.Sprintf("%s is given a %s as argument %d: a store opened with it is not committed (memory stores are empty after a restart, transient stores after every block), so %s", FuncName(cs.Callee), kind, i, consequence))
				}
			}
		}
	}
	r.Floor("arguments-to-module-functions-typed", nArgs, 500)
	r.Floor("control:memory/transient-keys-handed-to-SDK-keepers", nCtl, 2)
	r.OK(kp("WIRE", "non-persistent-keys#scan"), "module state lives in committed KV stores only", "app/, x/*",
		fmt.Sprintf("%d arguments of calls into the module's own packages inspected: none is a *MemoryStoreKey or *TransientStoreKey (violations, if any, are listed separately)", nArgs))

}


// checkStartupCreatesNoContext (C10-D2c, shared with C19: a restart around the upgrade height runs the start-up code again).
func checkStartupCreatesNoContext(p *Prog, r *Report, kp func(string, string) string) {
	// D2c start-up writes nothing: an sdk.Context (the only way to reach a keeper) or a raw committed store is obtained only
	// by block processing (baseapp supplies the context) and by the export command. Anything written through a context made
	// at start-up goes straight into the committed store's working set, outside any block.
	ctxMakers := []string{"baseapp.BaseApp).NewUncachedContext", "baseapp.BaseApp).NewContext", "types.NewContext",
		"CommitMultiStore).GetKVStore", "CommitMultiStore).GetCommitKVStore", "CommitMultiStore).GetCommitStore", "CommitMultiStore).GetStore",
		"MultiStore).GetKVStore", "MultiStore).GetStore"}
	allowedCtx := map[string]string{
		"(*app.App).ExportAppStateAndValidators": "genesis export works on a throw-away context of the latest version",
	}
	nCtx := 0
	for _, fn := range p.ModFuncs {
		if InPkgs(fn, "types/testsuite") {
			continue
		}
		for _, cs := range callSites(fn) {
			hit := ""
			for _, m := range ctxMakers {
				if strings.HasSuffix(cs.Name, m) {
					hit = m
				}
			}
			if hit == "" || strings.HasSuffix(cs.Name, "types.Context).MultiStore") {
				continue
			}
			// ctx.MultiStore().GetKVStore(key) inside block processing is the store of the supplied context — not a new gateway
			if strings.HasPrefix(hit, "MultiStore)") {
				if c, ok := cs.Instr.Common().Value.(*ssa.Call); ok && strings.HasSuffix(calleeName(&c.Call), "types.Context).MultiStore") {
					continue
				}
			}
			nCtx++
			key := kp("STATE", "context-created:"+FuncName(fn)+"→"+hit)
			if why, ok := allowedCtx[FuncName(fn)]; ok {
				r.OK(key, "only block processing and genesis export obtain a context or a committed store", p.Pos(cs.Instr.Pos()), why)
			} else {
				r.Fail(key, "only block processing and genesis export obtain a context or a committed store", p.Pos(cs.Instr.Pos()),
					fmt.Sprintf("%s calls %s: state written through it bypasses block processing (it is neither part of a block nor rolled back with one), so a node that ran this code and one that did not disagree", FuncName(fn), cs.Name))
			}
		}
	}
	r.Floor("control:context-creation-sites", nCtx, 1)
}


// checkNoProcessMemoryRegistrationInBlocks (F18; C10 and C19): block-processing code — an upgrade handler in particular — registers
// nothing in the memory of a long-lived SDK object. A params subspace created, or given its key table, while a block is executed
// exists only in the process that executed that block: a node restarted afterwards lacks it and handles a legacy parameter-change
// proposal differently from a node that kept running. Such registrations belong to the code that builds the application.
func checkNoProcessMemoryRegistrationInBlocks(p *Prog, r *Report, kp func(string, string) string, scope []*ssa.Function) {
	rule := "block-processing code registers nothing in the process memory of the params keeper (subspaces and key tables are set where the application is built, in every process)"
	registrars := []string{"x/params/types.Subspace).WithKeyTable", "x/params/keeper.Keeper).Subspace"}
	n, nBad := 0, 0
	// the constructors of the upgrade handlers (`CreateUpgradeHandler(mm, cfg, keepers) UpgradeHandler`) run where the application is
	// built, in every process: only what the handler closures they return (and what those call) do is block processing
	var entries []*ssa.Function
	for _, e := range consensusEntries(p) {
		res := e.Signature.Results()
		if res.Len() == 1 && strings.HasSuffix(res.At(0).Type().String(), "x/upgrade/types.UpgradeHandler") {
			continue
		}
		// of an upgrade package, only the handler closures (and what they call) run inside a block: its other functions are
		// reached from the constructor when the application is built, or from the closure — the walk below finds the latter
		if InPkgs(e, "app/upgrades") {
			sig := e.Signature
			isHandler := sig.Params().Len() == 3 && sig.Results().Len() == 2 && strings.HasSuffix(sig.Params().At(1).Type().String(), "x/upgrade/types.Plan")
			if !isHandler {
				continue
			}
		}
		entries = append(entries, e)
	}
	scope, _ = moduleScope(p, entries)
	for _, fn := range scope {
		if fn.Blocks == nil {
			continue
		}
		if res := fn.Signature.Results(); res.Len() == 1 && strings.HasSuffix(res.At(0).Type().String(), "x/upgrade/types.UpgradeHandler") {
			continue
		}
		for _, cs := range callSites(fn) {
			hit := ""
			for _, s := range registrars {
				if strings.HasSuffix(cs.Name, s) {
					hit = s
				}
			}
			if hit == "" {
				continue
			}
			n++
			nBad++
			r.Fail(kp("STATE", "process-memory-registration:"+FuncName(fn)+"→"+hit[strings.LastIndex(hit, ".")+1:]), rule, p.Pos(cs.Instr.Pos()),
				fmt.Sprintf("%s calls %s while a block is processed: the registration lives in this process only — after a restart it is gone, and a legacy parameter-change proposal that the running node executes is refused by the restarted one (\"parameter … not registered\"): the two compute different application hashes", FuncName(fn), cs.Name))
		}
	}
	if nBad == 0 {
		r.OK(kp("STATE", "process-memory-registration#none"), rule, "x/*, app/", fmt.Sprintf("%d functions in block-processing scope, no Subspace / WithKeyTable call", len(scope)))
	}
	// control: the registrations exist, outside the block-processing scope (where the application is built)
	ctl := 0
	for _, fn := range p.ModFuncs {
		if fn.Blocks == nil || !InPkgs(fn, "app") {
			continue
		}
		for _, cs := range callSites(fn) {
			for _, s := range registrars {
				if strings.HasSuffix(cs.Name, s) {
					ctl++
				}
			}
		}
	}
	r.Floor("control:params-registrations-at-wiring-time", ctl, 1)
	_ = n
}
