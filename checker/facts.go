package main

// FACTS — path conditions known to hold on entry to a basic block (DESIGN.md §2.2), with boolean
// module predicates expanded by path enumeration, and propositional entailment by truth table.

import (
	"go/constant"
	"fmt"
	"go/token"
	"go/types"
	"sort"
	"strings"

	"golang.org/x/tools/go/ssa"
)

type FKind int

const (
	FTrue FKind = iota
	FFalse
	FAtom
	FNot
	FAnd
	FOr
)

type Formula struct {
	Kind FKind
	Atom string
	Term *Term // for atoms
	Sub  []*Formula
}

var fTrue = &Formula{Kind: FTrue}
var fFalse = &Formula{Kind: FFalse}

func fNot(f *Formula) *Formula {
	switch f.Kind {
	case FTrue:
		return fFalse
	case FFalse:
		return fTrue
	case FNot:
		return f.Sub[0]
	}
	return &Formula{Kind: FNot, Sub: []*Formula{f}}
}

func fAnd(fs ...*Formula) *Formula {
	var out []*Formula
	for _, f := range fs {
		switch f.Kind {
		case FTrue:
			continue
		case FFalse:
			return fFalse
		case FAnd:
			out = append(out, f.Sub...)
		default:
			out = append(out, f)
		}
	}
	if len(out) == 0 {
		return fTrue
	}
	if len(out) == 1 {
		return out[0]
	}
	return &Formula{Kind: FAnd, Sub: out}
}

func fOr(fs ...*Formula) *Formula {
	var out []*Formula
	for _, f := range fs {
		switch f.Kind {
		case FFalse:
			continue
		case FTrue:
			return fTrue
		case FOr:
			out = append(out, f.Sub...)
		default:
			out = append(out, f)
		}
	}
	if len(out) == 0 {
		return fFalse
	}
	if len(out) == 1 {
		return out[0]
	}
	return &Formula{Kind: FOr, Sub: out}
}

func (f *Formula) String() string {
	switch f.Kind {
	case FTrue:
		return "true"
	case FFalse:
		return "false"
	case FAtom:
		return f.Atom
	case FNot:
		return "!" + f.Sub[0].String()
	}
	op := " && "
	if f.Kind == FOr {
		op = " || "
	}
	var ss []string
	for _, s := range f.Sub {
		ss = append(ss, s.String())
	}
	return "(" + strings.Join(ss, op) + ")"
}

func (f *Formula) atoms(m map[string]*Formula) {
	if f.Kind == FAtom {
		m[f.Atom] = f
	}
	for _, s := range f.Sub {
		s.atoms(m)
	}
}

// Atoms lists the distinct atoms of f.
func (f *Formula) Atoms() []*Formula {
	m := map[string]*Formula{}
	f.atoms(m)
	var ks []string
	for k := range m {
		ks = append(ks, k)
	}
	sort.Strings(ks)
	var out []*Formula
	for _, k := range ks {
		out = append(out, m[k])
	}
	return out
}

func (f *Formula) eval(a map[string]bool) bool {
	switch f.Kind {
	case FTrue:
		return true
	case FFalse:
		return false
	case FAtom:
		return a[f.Atom]
	case FNot:
		return !f.Sub[0].eval(a)
	case FAnd:
		for _, s := range f.Sub {
			if !s.eval(a) {
				return false
			}
		}
		return true
	case FOr:
		for _, s := range f.Sub {
			if s.eval(a) {
				return true
			}
		}
		return false
	}
	return false
}

// Entails decides F |= G propositionally (atoms independent). More than 18 atoms: undecided (false).
func Entails(F, G *Formula) bool {
	m := map[string]*Formula{}
	F.atoms(m)
	G.atoms(m)
	var ks []string
	for k := range m {
		ks = append(ks, k)
	}
	if len(ks) > 18 {
		// too many atoms for the truth table: keep only the top-level conjuncts of F that are connected to G's atoms (a weaker
		// premise, so a positive answer stays sound), growing the set until the atom budget is used up
		if G.Kind == FFalse || G.Kind == FTrue {
			return false
		}
		conj := flattenAnd(F)
		if len(conj) < 2 {
			return false
		}
		rel := map[string]*Formula{}
		G.atoms(rel)
		used := make([]bool, len(conj))
		var keep []*Formula
		for changed := true; changed; {
			changed = false
			for i, c := range conj {
				if used[i] {
					continue
				}
				ca := map[string]*Formula{}
				c.atoms(ca)
				share := false
				for k := range ca {
					if _, ok := rel[k]; ok {
						share = true
						break
					}
				}
				if !share {
					continue
				}
				extra := 0
				for k := range ca {
					if _, ok := rel[k]; !ok {
						extra++
					}
				}
				if len(rel)+extra > 18 {
					continue
				}
				used[i] = true
				keep = append(keep, c)
				for k, v := range ca {
					rel[k] = v
				}
				changed = true
			}
		}
		if len(keep) == 0 || len(keep) == len(conj) {
			return false
		}
		return Entails(fAnd(keep...), G)
	}
	sort.Strings(ks)
	a := map[string]bool{}
	for mask := 0; mask < 1<<len(ks); mask++ {
		for i, k := range ks {
			a[k] = mask&(1<<i) != 0
		}
		if F.eval(a) && !G.eval(a) {
			return false
		}
	}
	return true
}

// Satisfiable reports whether some assignment makes F true.
// flattenAnd lists the top-level conjuncts of F.
func flattenAnd(F *Formula) []*Formula {
	if F == nil {
		return nil
	}
	if F.Kind == FAnd {
		var out []*Formula
		for _, s := range F.Sub {
			out = append(out, flattenAnd(s)...)
		}
		return out
	}
	return []*Formula{F}
}

func Satisfiable(F *Formula) bool { return !Entails(F, fFalse) }

// ---------------------------------------------------------------------------------------------

// Facts computes path conditions for one function.
type Facts struct {
	p    *Prog
	fn   *ssa.Function
	o    *Origin
	memo map[*ssa.BasicBlock]*Formula
	// NoExpand disables predicate expansion (atoms stay as calls).
	NoExpand bool
	// ErrExpand decides how `h(args).err == nil` of a transparent helper is rendered: 0 atom ∧ expansion (default),
	// 1 atom only, 2 expansion only.
	ErrExpand func(atom *Formula) int
	// axioms: atom string -> expansion S with the knowledge atom ⇔ S (recorded when a helper's `err == nil` is met in default mode)
	axioms map[string]*Formula
	axAtom map[string]*Formula
	// impl: atom string -> (found, S) with the knowledge found ⇒ S, where found is the atom or its negation
	// (library contract of slices.IndexFunc: a non-negative result indexes an element that satisfies the predicate)
	impl map[string]implAxiom
}

type implAxiom struct {
	found *Formula
	S     *Formula
}

func NewFacts(p *Prog, fn *ssa.Function, o *Origin) *Facts {
	if o == nil {
		o = NewOrigin(p, fn)
	}
	return &Facts{p: p, fn: fn, o: o, memo: map[*ssa.BasicBlock]*Formula{}}
}

const maxPaths = 256

// At returns the condition that holds whenever control is at the start of block b.
func (fa *Facts) At(b *ssa.BasicBlock) *Formula {
	if f, ok := fa.memo[b]; ok {
		return f
	}
	fa.memo[b] = fTrue // cycle guard
	d := b.Idom()
	if d == nil {
		return fTrue
	}
	base := fa.At(d)
	// enumerate acyclic paths d -> b that do not pass through d again
	var disj []*Formula
	count := 0
	overflow := false
	var path []*ssa.BasicBlock
	onPath := map[*ssa.BasicBlock]bool{}
	var dfs func(cur *ssa.BasicBlock, conj []*Formula)
	dfs = func(cur *ssa.BasicBlock, conj []*Formula) {
		if overflow {
			return
		}
		if cur == b && len(path) > 0 {
			count++
			if count > maxPaths {
				overflow = true
				return
			}
			disj = append(disj, fAnd(conj...))
			return
		}
		if onPath[cur] {
			return
		}
		onPath[cur] = true
		path = append(path, cur)
		for si, s := range cur.Succs {
			if s == d {
				continue
			}
			if !d.Dominates(s) {
				continue
			}
			c := fa.edgeCond(cur, si, path)
			dfs(s, append(append([]*Formula(nil), conj...), c))
		}
		path = path[:len(path)-1]
		onPath[cur] = false
	}
	dfs(d, nil)
	var r *Formula
	if overflow || len(disj) == 0 {
		r = fTrue
	} else {
		r = fOr(disj...)
	}
	f := fAnd(base, r)
	// knowledge about transparent helpers whose result is tested on the way here: atom ⇔ expansion
	if len(fa.axioms) > 0 {
		have := map[string]*Formula{}
		f.atoms(have)
		for k := range have {
			if S, ok := fa.axioms[k]; ok {
				a := fa.axAtom[k]
				f = fAnd(f, fOr(fNot(a), S), fOr(a, fNot(S)))
			}
		}
	}
	if len(fa.impl) > 0 {
		have := map[string]*Formula{}
		f.atoms(have)
		for k := range have {
			if ax, ok := fa.impl[k]; ok {
				f = fAnd(f, fOr(fNot(ax.found), ax.S))
			}
		}
	}
	fa.memo[b] = f
	return f
}

// AtInstr returns the condition holding just before instruction in.
func (fa *Facts) AtInstr(in ssa.Instruction) *Formula { return fa.At(in.Block()) }

// AtInstrX: the condition at an instruction; for a return that passes a transparent helper's error through
// (`return helper(...)`, `v, err := helper(...); return v, err`) and is a success return only if the helper succeeded, the helper's
// success condition is part of what holds when the function returns successfully there.
func (fa *Facts) AtInstrX(in ssa.Instruction) *Formula {
	F := fa.At(in.Block())
	ret, ok := in.(*ssa.Return)
	if !ok || len(ret.Results) == 0 || fa.NoExpand {
		return F
	}
	ev := ret.Results[len(ret.Results)-1]
	if ev.Type().String() != "error" || isNilConst(ev) {
		return F
	}
	if hc, g, ok := fa.errOfHelperCall(ev); ok && hc.Parent() == fa.fn {
		if S := fa.errorSummary(g, hc, fa.o, 0); S != nil {
			return fAnd(F, S)
		}
	}
	return F
}

// edgeCond is the condition under which control goes from cur to its si-th successor.
func (fa *Facts) edgeCond(cur *ssa.BasicBlock, si int, path []*ssa.BasicBlock) *Formula {
	if len(cur.Instrs) == 0 {
		return fTrue
	}
	iff, ok := cur.Instrs[len(cur.Instrs)-1].(*ssa.If)
	if !ok {
		return fTrue
	}
	c := fa.valueFormula(iff.Cond, fa.o, path, 0)
	if si == 0 {
		return c
	}
	if !fa.NoExpand {
		// leaving a loop over a literal table by exhaustion: every element went through the body and came back (tableloop.go)
		if tl := tableLoopAt(cur); tl != nil {
			return fAnd(fNot(c), fa.unrolled(tl, fa.o, 0))
		}
	}
	return fNot(c)
}

// ValueFormula turns a boolean SSA value into a formula.
func (fa *Facts) ValueFormula(v ssa.Value) *Formula { return fa.valueFormula(v, fa.o, nil, 0) }

func cmpAtom(op string, a, b *Term) *Formula {
	as, bs := a.String(), b.String()
	switch op {
	case "==":
		if as > bs {
			as, bs = bs, as
			a, b = b, a
		}
		return &Formula{Kind: FAtom, Atom: "eq(" + as + ", " + bs + ")", Term: &Term{Op: "eq", Args: []*Term{a, b}}}
	case "<":
		return &Formula{Kind: FAtom, Atom: "lt(" + as + ", " + bs + ")", Term: &Term{Op: "lt", Args: []*Term{a, b}}}
	}
	return nil
}

func (fa *Facts) valueFormula(v ssa.Value, o *Origin, path []*ssa.BasicBlock, depth int) *Formula {
	switch x := v.(type) {
	case *ssa.Const:
		if x.Value != nil && x.Value.String() == "true" {
			return fTrue
		}
		if x.Value != nil && x.Value.String() == "false" {
			return fFalse
		}
	case *ssa.UnOp:
		if x.Op == token.NOT {
			return fNot(fa.valueFormula(x.X, o, path, depth))
		}
	case *ssa.Phi:
		// resolve along the path when the phi's block and its predecessor are on it
		for i := len(path) - 1; i > 0; i-- {
			if path[i] == x.Block() {
				pred := path[i-1]
				for k, pb := range x.Block().Preds {
					if pb == pred {
						return fa.valueFormula(x.Edges[k], o, path[:i], depth)
					}
				}
			}
		}
	case *ssa.BinOp:
		a, b := o.Of(x.X), o.Of(x.Y)
		if (x.Op == token.EQL || x.Op == token.NEQ) && !fa.NoExpand && depth < 4 {
			// err == nil / err != nil of a transparent helper call: expand into the helper's success condition
			var ev ssa.Value
			if isNilConst(x.Y) {
				ev = x.X
			} else if isNilConst(x.X) {
				ev = x.Y
			}
			if ev != nil {
				if hc, g, ok := fa.errOfHelperCall(ev); ok && (hc.Parent() == o.fn) {
					if f := fa.errorSummary(g, hc, o, depth); f != nil && len(f.Atoms()) <= 8 {
						// the atom itself stays (rules match on it); its expansion is added as an equivalent conjunct
						// default: the condition is the atom itself (both branches keep its exact polarity) and atom ⇔ expansion is
						// recorded as an axiom that At() conjoins; mode 1: atom only; mode 2: the expansion replaces the atom
						atom := cmpAtom("==", a, b)
						pos := atom
						mode := 0
						if fa.ErrExpand != nil {
							mode = fa.ErrExpand(atom)
						}
						switch mode {
						case 0:
							if fa.axioms == nil {
								fa.axioms, fa.axAtom = map[string]*Formula{}, map[string]*Formula{}
							}
							fa.axioms[atom.Atom] = f
							fa.axAtom[atom.Atom] = atom
						case 2:
							pos = f
						}
						if x.Op == token.EQL {
							return pos
						}
						return fNot(pos)
					}
				}
			}
		}
		if !fa.NoExpand && depth < 4 {
			fa.indexFuncContract(x, o, a, b, depth)
		}
		// len(s) compared with 0, s a string: the emptiness test of s (rules name `s == ""`)
		if sa, sb, isEmptyTest, neg := stringEmptinessTest(x, a, b); isEmptyTest {
			f := cmpAtom("==", sa, sb)
			if neg {
				return fNot(f)
			}
			return f
		}
		switch x.Op {
		case token.EQL:
			return cmpAtom("==", a, b)
		case token.NEQ:
			return fNot(cmpAtom("==", a, b))
		case token.LSS:
			return cmpAtom("<", a, b)
		case token.GTR:
			return cmpAtom("<", b, a)
		case token.LEQ:
			return fNot(cmpAtom("<", b, a))
		case token.GEQ:
			return fNot(cmpAtom("<", a, b))
		case token.AND, token.LAND:
			return fAnd(fa.valueFormula(x.X, o, path, depth), fa.valueFormula(x.Y, o, path, depth))
		case token.OR, token.LOR:
			return fOr(fa.valueFormula(x.X, o, path, depth), fa.valueFormula(x.Y, o, path, depth))
		}
	case *ssa.Call:
		if callee := x.Call.StaticCallee(); callee != nil && !fa.NoExpand && depth < 4 {
			if f := fa.predicateSummary(callee, x, o, depth); f != nil {
				return f
			}
		} else if callee == nil && !x.Call.IsInvoke() && !fa.NoExpand && depth < 4 {
			// a call of a function value that resolves to a bound method, a plain function or a function literal of this
			// function (an element of a literal table of checks): the call is that function's call
			if g, recv, fvs, ok := fa.closureTarget(o, x.Call.Value); ok && InModule(g) && g.Blocks != nil {
				args := append([]*Term(nil), recv...)
				for _, a := range x.Call.Args {
					args = append(args, o.argAt(a, x))
				}
				if f := fa.predicateSummaryArgs(g, args, fvs, fa.p.Pos(x.Pos()), o, depth); f != nil {
					return f
				}
				if fvs == nil {
					t := &Term{Op: "call", Name: FuncName(g), Args: args, Val: x}
					if !pureCallees[t.Name] {
						t.Site = o.siteOf(x)
					}
					return &Formula{Kind: FAtom, Atom: t.String(), Term: t}
				}
			}
		}
	}
	t := o.Of(v)
	return &Formula{Kind: FAtom, Atom: t.String(), Term: t}
}

// predicateSummary expands a call to a bool-returning, acyclic module function into a formula over
// the caller's terms, by enumerating the callee's paths.
func (fa *Facts) predicateSummary(callee *ssa.Function, call *ssa.Call, o *Origin, depth int) *Formula {
	var args []*Term
	for _, a := range call.Call.Args {
		args = append(args, o.Of(a))
	}
	return fa.predicateSummaryArgs(callee, args, nil, fa.p.Pos(call.Pos()), o, depth)
}

// predicateSummaryArgs: the same for a callee given with the terms of its arguments (and, for a function literal, of its free
// variables). Loops over a literal table whose only early exit is `return false` count as the conjunction they are.
func (fa *Facts) predicateSummaryArgs(callee *ssa.Function, args []*Term, fvs []*Term, callPos string, o *Origin, depth int) *Formula {
	if !InModule(callee) || callee.Blocks == nil || fa.p.IsGenerated(callee) {
		return nil
	}
	res := callee.Signature.Results()
	if res.Len() != 1 {
		return nil
	}
	if b, ok := res.At(0).Type().Underlying().(*types.Basic); !ok || b.Kind() != types.Bool {
		return nil
	}
	inTable := map[*ssa.BasicBlock]bool{}
	for _, b := range callee.Blocks {
		if tl := tableLoopAt(b); tl != nil && tl.summarisable() {
			for lb := range tl.blocks {
				inTable[lb] = true
			}
		}
	}
	if len(callee.Blocks) > 40 {
		return nil
	}
	if !isPureFn(callee, 0) {
		// a finite conjunction written as a loop over a literal table is expanded even when the functions it calls are not
		// pure (they stay atoms): it calls module functions only, statically, and hands no sdk.Context on
		if len(inTable) == 0 || !callsOnlyStaticModuleFuncs(callee) {
			return nil
		}
	}
	for _, b := range callee.Blocks {
		if inCycle(b) && !inTable[b] {
			return nil
		}
		for _, in := range b.Instrs {
			switch x := in.(type) {
			case *ssa.Panic, *ssa.Go, *ssa.Defer, *ssa.MapUpdate, *ssa.Send:
				return nil
			case *ssa.Store:
				// stores into locals (spilled parameters, composite literals) are fine; anything else is an effect
				if al, _ := rootAlloc(x.Addr); al == nil {
					if ia, isIdx := x.Addr.(*ssa.IndexAddr); isIdx {
						if al2, _ := rootAlloc(ia.X); al2 != nil {
							continue // an element of a local array (a literal table under construction)
						}
					}
					return nil
				}
			}
		}
	}
	sub := &Origin{p: fa.p, fn: callee, env: map[*ssa.Parameter]*Term{}, fvenv: map[*ssa.FreeVar]*Term{},
		depth: o.depth + 1, memo: map[ssa.Value]*Term{}, busy: map[ssa.Value]bool{},
		site: o.site + callPos + ">"}
	for i, prm := range callee.Params {
		if i < len(args) {
			sub.env[prm] = args[i]
		}
	}
	for i, fv := range callee.FreeVars {
		if i < len(fvs) {
			sub.fvenv[fv] = fvs[i]
		}
	}
	subFacts := &Facts{p: fa.p, fn: callee, o: sub, memo: map[*ssa.BasicBlock]*Formula{}}
	var disj []*Formula
	count := 0
	ok := true
	var path []*ssa.BasicBlock
	var dfs func(cur *ssa.BasicBlock, conj []*Formula)
	dfs = func(cur *ssa.BasicBlock, conj []*Formula) {
		if !ok {
			return
		}
		path = append(path, cur)
		defer func() { path = path[:len(path)-1] }()
		last := cur.Instrs[len(cur.Instrs)-1]
		switch t := last.(type) {
		case *ssa.Return:
			count++
			if count > maxPaths {
				ok = false
				return
			}
			rv := subFacts.valueFormula(t.Results[0], sub, path, depth+1)
			disj = append(disj, fAnd(append(append([]*Formula(nil), conj...), rv)...))
		case *ssa.If:
			if inTable[cur] {
				tl := tableLoopAt(cur)
				if tl == nil {
					ok = false // a block inside a table loop is only entered through the loop's summary
					return
				}
				u := subFacts.unrolled(tl, sub, depth+1)
				dfs(tl.done, append(append([]*Formula(nil), conj...), u))
				return
			}
			c := subFacts.valueFormula(t.Cond, sub, path, depth+1)
			dfs(cur.Succs[0], append(append([]*Formula(nil), conj...), c))
			dfs(cur.Succs[1], append(append([]*Formula(nil), conj...), fNot(c)))
		case *ssa.Jump:
			dfs(cur.Succs[0], conj)
		default:
			ok = false
		}
	}
	dfs(callee.Blocks[0], nil)
	if !ok {
		return nil
	}
	return fOr(disj...)
}

// ---------------------------------------------------------------------------------------------
// helpers used by rules

// DominatingFact checks that, at instruction `at`, the path condition entails some atom (positive if
// want==true, negated otherwise) whose term satisfies match. It returns the atom used as witness.
func (fa *Facts) DominatingFact(at ssa.Instruction, want bool, match func(*Term) bool) (string, bool) {
	F := fa.AtInstrX(at)
	for _, a := range F.Atoms() {
		if a.Term == nil || !match(a.Term) {
			continue
		}
		var G *Formula = a
		if !want {
			G = fNot(a)
		}
		if Entails(F, G) {
			return G.String(), true
		}
	}
	return "", false
}

// CallsIn lists the call instructions of fn (incl. defers / go) with their resolved callee names.
type CallSite struct {
	Fn     *ssa.Function
	Instr  ssa.CallInstruction
	Callee *ssa.Function // static callee or nil
	Name   string
}

func callSites(fn *ssa.Function) []CallSite {
	var out []CallSite
	for _, b := range fn.Blocks {
		for _, in := range b.Instrs {
			if c, ok := in.(ssa.CallInstruction); ok {
				cc := c.Common()
				callee := cc.StaticCallee()
				if callee == nil {
					callee = devirt(cc)
				}
				out = append(out, CallSite{Fn: fn, Instr: c, Callee: callee, Name: calleeName(cc)})
			}
		}
	}
	return out
}

// findCalls returns the call sites in fn whose callee name ends with suffix.
func findCalls(fn *ssa.Function, suffix string) []CallSite {
	var out []CallSite
	for _, cs := range callSites(fn) {
		if strings.HasSuffix(cs.Name, suffix) {
			out = append(out, cs)
		}
	}
	return out
}

// returnsOf lists the Return instructions of fn.
func returnsOf(fn *ssa.Function) []*ssa.Return {
	var out []*ssa.Return
	for _, b := range fn.Blocks {
		if b == fn.Recover {
			continue // the synthetic recover block of functions with defers: not a source-level return
		}
		for _, in := range b.Instrs {
			if r, ok := in.(*ssa.Return); ok {
				out = append(out, r)
			}
		}
	}
	return out
}

// unspill resolves the load of a spilled result/local to the value stored into it earlier in the same block (go/ssa spills named
// and unnamed results to locals in functions that use defer: `*r = v; rundefers; t = *r; return t`).
func unspill(v ssa.Value) ssa.Value {
	u, ok := v.(*ssa.UnOp)
	if !ok || u.Op != token.MUL {
		return v
	}
	al, ok := u.X.(*ssa.Alloc)
	if !ok || u.Block() == nil {
		return v
	}
	var last ssa.Value
	for _, in := range u.Block().Instrs {
		if in == ssa.Instruction(u) {
			break
		}
		if st, ok := in.(*ssa.Store); ok && st.Addr == ssa.Value(al) {
			last = st.Val
		}
	}
	if last != nil {
		return last
	}
	return v
}

// asConst: v (after unspilling) is a constant.
func asConst(v ssa.Value) (*ssa.Const, bool) {
	c, ok := unspill(v).(*ssa.Const)
	return c, ok
}

// isNilConst reports whether v is the nil constant.
func isNilConst(v ssa.Value) bool {
	c, ok := unspill(v).(*ssa.Const)
	return ok && c.Value == nil
}

// successReturns: returns that may report success. For functions without an error result every return counts.
// A return is a failure return when its error operand is definitely non-nil: built by an error constructor,
// loaded from an Err* sentinel, or tested non-nil by a dominating fact. `return x, nil` is a success return;
// `return f(...)` (error passed through from a callee) may be one.
func successReturns(fn *ssa.Function) []*ssa.Return {
	var out []*ssa.Return
	res := fn.Signature.Results()
	hasErr := res.Len() > 0 && res.At(res.Len()-1).Type().String() == "error"
	var o *Origin
	var fa *Facts
	for _, r := range returnsOf(fn) {
		if !hasErr {
			out = append(out, r)
			continue
		}
		ev := r.Results[len(r.Results)-1]
		if isNilConst(ev) {
			out = append(out, r)
			continue
		}
		if o == nil {
			o = &Origin{p: nil, fn: fn, env: map[*ssa.Parameter]*Term{}, fvenv: map[*ssa.FreeVar]*Term{}, memo: map[ssa.Value]*Term{}, busy: map[ssa.Value]bool{}, NoInline: true}
		}
		ev = unspill(ev)
		if definitelyError(ev, 0) {
			continue
		}
		// dominated by `ev != nil` ?
		if fa == nil && progForFacts != nil {
			oo := NewOrigin(progForFacts, fn)
			fa = NewFacts(progForFacts, fn, oo)
			o = oo
		}
		if fa != nil {
			et := o.Of(ev)
			if _, nonNil := fa.DominatingFact(r, false, func(t *Term) bool {
				if t.Op != "eq" {
					return false
				}
				a, b := t.Args[0], t.Args[1]
				if a.Op != "const" {
					a, b = b, a
				}
				return a.Op == "const" && a.Name == "nil" && b.Eq(et)
			}); nonNil {
				continue
			}
		}
		out = append(out, r)
	}
	return out
}

// progForFacts is set by Load so that successReturns can evaluate dominating facts.
var progForFacts *Prog

var errorCtorSuffixes = []string{"fmt.Errorf", "errors.New", "errors.Wrap", "errors.Wrapf", "status.Error", "status.Errorf", "errors.Register"}

func definitelyError(v ssa.Value, depth int) bool {
	if depth > 4 {
		return false
	}
	v = unspill(v)
	switch x := v.(type) {
	case *ssa.MakeInterface:
		// a concrete non-nil-able value boxed into error (e.g. *errors.Error loaded from a sentinel)
		if u, ok := x.X.(*ssa.UnOp); ok {
			if g, ok := u.X.(*ssa.Global); ok && strings.HasPrefix(g.Name(), "Err") {
				return true
			}
		}
		return definitelyError(x.X, depth+1)
	case *ssa.Call:
		name := calleeName(&x.Call)
		for _, s := range errorCtorSuffixes {
			if strings.HasSuffix(name, s) {
				return true
			}
		}
		// a helper of the module that only ever returns a freshly made error (errNotFound(msg) = status.Error(codes.NotFound, msg))
		if g := x.Call.StaticCallee(); g != nil && InModule(g) && g.Blocks != nil && g.Signature.Results().Len() == 1 && isErrorType(g.Signature.Results().At(0).Type()) {
			rets := returnsOf(g)
			all := len(rets) > 0
			for _, r := range rets {
				if !definitelyError(r.Results[0], depth+1) {
					all = false
				}
			}
			if all {
				return true
			}
		}
	case *ssa.UnOp:
		if g, ok := x.X.(*ssa.Global); ok && (strings.HasPrefix(g.Name(), "Err") || errorSentinel(g)) {
			return true
		}
	case *ssa.ChangeInterface:
		return definitelyError(x.X, depth+1)
	case *ssa.Phi:
		for _, e := range x.Edges {
			if !definitelyError(e, depth+1) {
				return false
			}
		}
		return len(x.Edges) > 0
	}
	return false
}

// errorSentinel: a package-level variable of the module that is assigned exactly once, by the package initialiser, from an error
// constructor, and whose address is taken nowhere else (`var errEmptyID = errors.New("…")`).
var sentinelMemo = map[*ssa.Global]bool{}

func errorSentinel(g *ssa.Global) bool {
	if v, ok := sentinelMemo[g]; ok {
		return v
	}
	sentinelMemo[g] = false
	if g.Pkg == nil || !InModulePkg(g.Pkg) || progForFacts == nil {
		return false
	}
	initFn := g.Pkg.Func("init")
	if initFn == nil {
		return false
	}
	stores := 0
	for _, b := range initFn.Blocks {
		for _, in := range b.Instrs {
			if st, ok := in.(*ssa.Store); ok && st.Addr == ssa.Value(g) {
				stores++
				if !definitelyError(st.Val, 1) {
					return false
				}
			}
		}
	}
	if stores != 1 {
		return false
	}
	// everywhere else the variable is only loaded
	for _, fn := range progForFacts.ModFuncs {
		if fn.Pkg != g.Pkg && !token.IsExported(g.Name()) {
			continue
		}
		for _, b := range fn.Blocks {
			for _, in := range b.Instrs {
				for _, op := range in.Operands(nil) {
					if *op != ssa.Value(g) {
						continue
					}
					if u, ok := in.(*ssa.UnOp); !ok || u.Op != token.MUL {
						return false
					}
				}
			}
		}
	}
	sentinelMemo[g] = true
	return true
}

func describe(v interface{}) string { return fmt.Sprintf("%v", v) }

// ---------------------------------------------------------------------------------------------
// Success exits: single-exit functions (`return res, err` over result variables) merge all paths into one return whose results
// are phis. An Exit is a return seen from one incoming edge, with the phis of the return block resolved for that edge; for
// ordinary returns it is the return itself.

type Exit struct {
	Ret     *ssa.Return
	Pred    *ssa.BasicBlock // the predecessor this exit comes from; nil for a return that is not split
	Results []ssa.Value
}

// exitsOf lists the exits of fn (all of them, successful or not).
func exitsOf(fn *ssa.Function) []Exit {
	var out []Exit
	for _, ret := range returnsOf(fn) {
		b := ret.Block()
		split := false
		for _, rv := range ret.Results {
			if ph, ok := unspill(rv).(*ssa.Phi); ok && ph.Block() == b {
				split = true
			}
		}
		// only a block made of phis (and debug refs) followed by the return is split
		for _, in := range b.Instrs {
			switch in.(type) {
			case *ssa.Phi, *ssa.Return, *ssa.DebugRef:
			default:
				split = false
			}
		}
		if !split || len(b.Preds) < 2 {
			out = append(out, Exit{Ret: ret, Results: ret.Results})
			continue
		}
		for k, pred := range b.Preds {
			e := Exit{Ret: ret, Pred: pred}
			for _, rv := range ret.Results {
				if ph, ok := unspill(rv).(*ssa.Phi); ok && ph.Block() == b && k < len(ph.Edges) {
					e.Results = append(e.Results, ph.Edges[k])
				} else {
					e.Results = append(e.Results, rv)
				}
			}
			out = append(out, e)
		}
	}
	return out
}

// Block is the block in which the exit is decided: the predecessor for a split return, the return's own block otherwise.
func (e Exit) Block() *ssa.BasicBlock {
	if e.Pred != nil {
		return e.Pred
	}
	return e.Ret.Block()
}

// successExits: the exits whose error result is nil, or not known to be non-nil.
func successExits(fn *ssa.Function) []Exit {
	res := fn.Signature.Results()
	hasErr := res.Len() > 0 && res.At(res.Len()-1).Type().String() == "error"
	var out []Exit
	var o *Origin
	var fa *Facts
	for _, e := range exitsOf(fn) {
		if !hasErr {
			out = append(out, e)
			continue
		}
		ev := unspill(e.Results[len(e.Results)-1])
		if isNilConst(ev) {
			out = append(out, e)
			continue
		}
		if definitelyError(ev, 0) {
			continue
		}
		if fa == nil && progForFacts != nil {
			o = NewOrigin(progForFacts, fn)
			fa = NewFacts(progForFacts, fn, o)
		}
		if fa != nil {
			et := o.Of(ev)
			F := fa.AtExit(e)
			nonNil := false
			for _, a := range F.Atoms() {
				t := a.Term
				if t == nil || t.Op != "eq" {
					continue
				}
				x, y := t.Args[0], t.Args[1]
				if x.Op != "const" {
					x, y = y, x
				}
				if x.Op == "const" && x.Name == "nil" && y.Eq(et) && Entails(F, fNot(a)) {
					nonNil = true
				}
			}
			if nonNil {
				continue
			}
		}
		out = append(out, e)
	}
	return out
}

// AtExit: the condition under which control leaves through the exit.
func (fa *Facts) AtExit(e Exit) *Formula {
	if e.Pred == nil {
		return fa.AtInstrX(e.Ret)
	}
	F := fa.At(e.Pred)
	for si, s := range e.Pred.Succs {
		if s == e.Ret.Block() {
			F = fAnd(F, fa.edgeCond(e.Pred, si, []*ssa.BasicBlock{e.Pred}))
			break
		}
	}
	return F
}

// domExit: instruction in is executed on every path that leaves through the exit.
func (o *Origin) domExit(in ssa.Instruction, e Exit) bool {
	if e.Pred == nil {
		return o.dominates(in, e.Ret)
	}
	return in.Block() == e.Pred || in.Block().Dominates(e.Pred)
}

// stringEmptinessTest: x compares len(s) with 0 for a string s — `len(s) == 0`, `len(s) != 0`, `len(s) > 0`, `0 < len(s)`,
// `len(s) < 1`, `len(s) >= 1`, `len(s) <= 0`. Returns the terms of s and of "" and whether the test is negated (s is NOT empty).
func stringEmptinessTest(x *ssa.BinOp, a, b *Term) (*Term, *Term, bool, bool) {
	lenOf := func(v ssa.Value, t *Term) *Term {
		c, ok := v.(*ssa.Call)
		if !ok || len(c.Call.Args) != 1 {
			return nil
		}
		bi, ok := c.Call.Value.(*ssa.Builtin)
		if !ok || bi.Name() != "len" {
			return nil
		}
		bt, ok := c.Call.Args[0].Type().Underlying().(*types.Basic)
		if !ok || bt.Info()&types.IsString == 0 || len(t.Args) != 1 {
			return nil
		}
		return t.Args[0]
	}
	constInt := func(v ssa.Value) (int64, bool) {
		c, ok := v.(*ssa.Const)
		if !ok || c.Value == nil || c.Value.Kind() != constant.Int {
			return 0, false
		}
		i, exact := constant.Int64Val(c.Value)
		return i, exact
	}
	empty := &Term{Op: "const", Name: `""`}
	op := x.Op
	sx, k, okK := lenOf(x.X, a), int64(0), false
	if sx != nil {
		k, okK = constInt(x.Y)
	} else if sx = lenOf(x.Y, b); sx != nil {
		k, okK = constInt(x.X)
		// mirror: k op len  ==  len op' k
		switch op {
		case token.LSS:
			op = token.GTR
		case token.GTR:
			op = token.LSS
		case token.LEQ:
			op = token.GEQ
		case token.GEQ:
			op = token.LEQ
		}
	}
	if sx == nil || !okK {
		return nil, nil, false, false
	}
	switch {
	case op == token.EQL && k == 0, op == token.LEQ && k == 0, op == token.LSS && k == 1:
		return sx, empty, true, false
	case op == token.NEQ && k == 0, op == token.GTR && k == 0, op == token.GEQ && k == 1:
		return sx, empty, true, true
	}
	return nil, nil, false, false
}
