package main

import (
	"fmt"
	"go/types"
	"regexp/syntax"
	"sort"
	"strings"

	"golang.org/x/tools/go/ssa"
)

func init() { register("C12", checkC12) }

// C12 — PNFT tokens: unique, immutable, isolated per denom, consistently indexed.
func checkC12(p *Prog, r *Report) {
	checkNoDroppedErrors(p, r, "C12", "x/pnft", func(fn *ssa.Function) bool { return InPkgs(fn, "x/pnft") })
	checkNoNilWrap(p, r, "C12", "x/pnft", func(fn *ssa.Function) bool { return InPkgs(fn, "x/pnft") })
	r.Explain = "Decided statically: D1 the only token-data writer reachable from any PNFT handler is x/nft Mint, from the mint handler only (Update/Batch* have no call site in the module); the minted NFT's id/uri/hash and packed metadata come from the same-named request fields and ctx.BlockTime(); x/nft's Mint itself (read from the loaded SDK source) reaches mintWithNoCheck only under HasNFT == false; D2 the class deletion is dominated by GetTotalSupply(ctx, sameId) == 0; D3 every non-pagination field of every PNFT query request is read and used on its handler's call tree; D4 every identifier introduced into x/nft's delimiter-joined keys (class id at SaveClass, class and token id at Mint) is a request field whose ValidateBasic, on every accepting path, excludes the delimiter byte (read from x/nft/keeper.Delimiter), and the handler runs ValidateBasic before the keeper call; D5 the three Pnft views build their 10 fields from the same sources. The pnft store key is handed to the pnft keeper constructor only."
	r.NotDec = []string{"x/nft owner-index maintenance and iterators", "pagination", "identifiers in hand-written genesis files"}
	r.Trusted = []string{"cosmos-sdk v0.47.12 x/nft keeper"}
	kp := func(rule, rest string) string { return rule + ":C12:" + rest }
	checkRequestsNotMutated(p, r, "C12", "x/pnft/types")
	// every existing token survives an export: the exporter reads every class and every token of every class through the x/nft
	// keeper's full iterators (not a by-owner or paginated view), for every denom
	if pexp := p.Func(Rel("x/pnft"), "ExportGenesis"); pexp != nil {
		reach := p.ReachFrom([]*ssa.Function{pexp}, func(f *ssa.Function) bool { return InModule(f) && !p.IsGenerated(f) })
		readsNft := map[string]bool{}
		for _, f := range reach.Order {
			if n, ok := isNftKeeperMethod(f); ok {
				readsNft[n] = true
			}
		}
		r.Check(readsNft["GetClasses"] && readsNft["GetNFTsOfClass"] && readsNft["GetOwner"], kp("WMC", "pnft.ExportGenesis#reads-class+token+owner"),
			"export reads every class, every token of every class and each token's current owner", p.FnPos(pexp), fmt.Sprint(keys(readsNft)), fmt.Sprintf("x/nft reads on the export path: %v — tokens that the export does not list are gone after the import", keys(readsNft)))
		checkPnftExportLoop(p, r, kp, pexp)
	}
	// a token's creator, creation time and content survive export/import: the importer consumes every exported field
	if pimp := p.Func(Rel("x/pnft"), "InitGenesis"); pimp != nil {
		checkPnftImportReadsAllFields(p, r, kp, pimp)
		checkUnconditionalLoopEffectByCallee(p, r, kp("LOOP", "x/pnft.InitGenesis#every-denom-imported"), pimp, "SaveDenom")
		checkUnconditionalLoopEffectByCallee(p, r, kp("LOOP", "x/pnft.InitGenesis#every-pnft-imported"), pimp, "")
	}

	hs := p.ServerHandlers("MsgServer")["x/pnft"]
	r.Floor("pnft-handlers", len(hs), 7)
	checkNftPaginatedQueries(p, r, kp)
	// the listings decode every token's metadata into a fresh variable (a reused target shows one token's fields in the next)
	r.Count("in-loop-decode-targets(x/pnft)", checkLoopFreshDecode(p, r, "C12", func(fn *ssa.Function) bool { return InPkgs(fn, "x/pnft") })) // no floor: the loop may legitimately move into a generic mapper (the fixture is the control)
	delim, okD, re, dpos := globalByteSliceLit(p, nftKeeperPath, "Delimiter")
	if !okD || re > 0 || len(delim) != 1 {
		r.Fail(kp("CONST", "nft.Delimiter"), "x/nft's key delimiter is a one-byte constant", p.Pos(dpos), fmt.Sprintf("literal=%v reassigned=%d value=%v", okD, re, delim))
		return
	}
	tokenWriters := 0
	for _, fn := range sortedFuncs(hs) {
		hn := FuncName(fn)
		msg := handlerMsgType(fn)
		w := pnftEffectsFrom(p, fn)
		// handler runs ValidateBasic before any keeper call
		vbDominates := func(e pnftEffect) bool {
			vb := p.MethodOf(msg, "ValidateBasic")
			o := NewOrigin(p, fn)
			fa := NewFacts(p, fn, o)
			// the effect is inside a callee: use the call site in the handler on the chain
			var top ssa.Instruction
			for _, cs := range callSites(fn) {
				if cs.Callee != nil && InPkgs(resolveBound(cs.Callee), "x/pnft/keeper") && !p.IsGenerated(resolveBound(cs.Callee)) {
					top = cs.Instr
				}
			}
			if top == nil || vb == nil {
				return false
			}
			_, ok := fa.DominatingFact(top, true, func(t *Term) bool {
				if t.Op != "eq" {
					return false
				}
				a, b := t.Args[0], t.Args[1]
				if a.Op != "const" {
					a, b = b, a
				}
				return a.Op == "const" && a.Name == "nil" && b.Op == "call" && b.Name == FuncName(vb)
			})
			return ok
		}
		for _, e := range w.effects {
			site := p.Pos(e.Instr.Pos())
			ek := hn + "→" + e.Kind
			switch e.Kind {
			case "nft:Mint":
				tokenWriters++
				tok := e.Term.Args[2]
				for _, f := range []string{"Id", "Uri", "UriHash"} {
					mf, ok := msgField(tok.Field(f))
					r.Check(ok && mf == f, kp("ORIGIN", ek+"#nft."+f+"=request."+f), "the minted token's immutable attributes come from the same-named request fields", site, "request."+mf, fmt.Sprint(tok.Field(f)))
				}
				meta := tok.Field("Data")
				var lit *Term
				if meta != nil {
					meta.Walk(func(x *Term) {
						if x.Op == "lit" && strings.HasSuffix(x.Name, "PNFTMeta") {
							lit = x
						}
					})
				}
				if lit == nil {
					r.Fail(kp("ORIGIN", ek+"#meta"), "the minted token's metadata is a PNFTMeta literal packed into Any", site, fmt.Sprint(meta))
				} else {
					for _, f := range []string{"Name", "Description", "Creator", "Data"} {
						mf, ok := msgField(lit.Field(f))
						r.Check(ok && mf == f, kp("ORIGIN", ek+"#meta."+f+"=request."+f), "the minted token's immutable attributes come from the same-named request fields", site, "request."+mf, fmt.Sprint(lit.Field(f)))
					}
					ca := lit.Field("CreatedAt")
					r.Check(ca != nil && ca.IsCall("(sdk/types.Context).BlockTime"), kp("ORIGIN", ek+"#meta.CreatedAt=BlockTime"), "creation time is the block time", site, "ctx.BlockTime()", fmt.Sprint(ca))
				}
				// D4 for both ids
				checkIdExcludesDelimiter(p, r, kp, ek+"#Id", site, msg, tok.Field("Id"), delim[0], vbDominates(e))
				// the class id handed to Mint names an existing class (x/nft Mint requires HasClass, checked below), so it inherits
				// the constraint from the class's creation; an explicit check in ValidateBasic is accepted but not required
				r.Check(nftMintRequiresClass(p), kp("GUARD", ek+"#ClassId-names-existing-class"), "a token is minted only into an existing class (x/nft Mint is dominated by HasClass == true; read from the loaded SDK source)", site,
					"x/nft Mint checks HasClass(token.ClassId)", "x/nft Mint no longer requires the class to exist: the class id would need its own delimiter check")
			case "nft:SaveClass":
				cls := e.Term.Args[2]
				if cls.Op == "deref" {
					cls = cls.Args[0]
				}
				var id *Term
				cls.Walk(func(x *Term) {
					// the class literal itself (constructor summarised) or the Denom it is built from (constructor kept as a call)
					if id == nil && x.Op == "lit" && (strings.HasSuffix(x.Name, "types.Denom") || strings.HasSuffix(x.Name, "x/nft.Class")) {
						id = x.Field("Id")
					}
				})
				checkIdExcludesDelimiter(p, r, kp, ek+"#Id", site, msg, id, delim[0], vbDominates(e))
			case "raw:Delete":
				if e.Key != nil && otherFamilyKey(p, e.Key) {
					continue // not the class record: a delete in a family of the module's own
				}
				// D2: no tokens left
				ok, wit := false, ""
				for _, a := range e.Cond.Atoms() {
					t := a.Term
					if t == nil || t.Op != "eq" {
						continue
					}
					x, y := t.Args[0], t.Args[1]
					if x.Op != "const" {
						x, y = y, x
					}
					if x.Op == "const" && x.Name == "0" && y.IsCall("(sdk/x/nft/keeper.Keeper).GetTotalSupply") && len(y.Args) == 3 &&
						rawKeyID(e.Key) != nil && y.Args[2].Eq(rawKeyID(e.Key)) && Entails(e.Cond, a) {
						ok, wit = true, a.String()
					}
				}
				r.Check(ok, kp("GUARD", ek+"#no-tokens-left"), "guarded effect: a class is deleted only when x/nft reports zero supply for the same class id (no orphan tokens)", site, wit,
					"the class delete is not dominated by GetTotalSupply(ctx, same id) == 0: tokens of a deleted denom stay readable but can be neither burned nor transferred, and a re-created denom inherits them")
				// the key handed to the raw delete is x/nft's class key of that very id, untruncated (finding-class: fixed-size buffers)
				if kb := staticCalleeOfTerm(p, e.Key); kb != nil {
					okKB, whyKB := rawClassKeyBuilderShape(kb)
					r.Check(okKB, kp("LIN", FuncName(kb)+"#key=prefix++id"), "the hand-built x/nft class key is the class prefix followed by the whole id, in a buffer sized len(prefix)+len(id)", p.FnPos(kb), whyKB,
						FuncName(kb)+": "+whyKB+" — a bounded buffer truncates long ids, so the supply check runs on one denom and the delete hits the denom named by the truncated prefix (whose tokens are orphaned)")
				}
			case "nft:Update", "nft:BatchUpdate", "nft:BatchMint":
				r.Fail(kp("WMC", ek), "a minted token's data is never rewritten", site, "token-data writer "+e.Kind+" reachable from "+hn+" via "+strings.Join(e.Chain, " -> "))
			}
		}
	}
	r.Check(tokenWriters == 1, kp("WMC", "token-data-writers-reachable-from-handlers#expected=1"), "exactly one handler path writes token data (the mint)", "x/pnft/keeper",
		"1 (Mint)", fmt.Sprintf("%d token-data writer sites reachable from handlers", tokenWriters))
	// uniqueness inside x/nft Mint
	if mint := p.Method(nftKeeperPath, "Keeper", "Mint"); mint != nil {
		o := NewOrigin(p, mint)
		o.NoInline = true
		fa := NewFacts(p, mint, o)
		fa.NoExpand = true
		found := false
		for _, cs := range callSites(mint) {
			if cs.Callee != nil && cs.Callee.Name() == "mintWithNoCheck" {
				found = true
				w, ok := fa.DominatingFact(cs.Instr, false, func(t *Term) bool {
					return t.IsCall("(sdk/x/nft/keeper.Keeper).HasNFT") && len(t.Args) == 4 && t.Args[2].Op == "field" && t.Args[2].Name == "ClassId" && t.Args[3].Op == "field" && t.Args[3].Name == "Id"
				})
				r.Check(ok, kp("GUARD", "sdk/x/nft/keeper.Keeper.Mint→mintWithNoCheck#HasNFT=false"), "x/nft mints only when (class, id) does not exist yet (read from the loaded SDK source)", p.Pos(cs.Instr.Pos()), w, "x/nft Mint no longer checks HasNFT")
			}
		}
		if !found {
			r.Fail(kp("GUARD", "sdk/x/nft/keeper.Keeper.Mint#anchor"), "anchor", nftKeeperPath, "mintWithNoCheck call not found in x/nft Mint")
		}
	} else {
		r.Fail(kp("GUARD", "sdk/x/nft/keeper.Keeper.Mint#anchor"), "anchor", nftKeeperPath, "x/nft Mint not found")
	}
	// D1 WMC (shared shape with C06-D3)
	uses := p.UsesOf(func(f *ssa.Function) bool {
		n, ok := isNftKeeperMethod(f)
		_, mut := nftMutators[n]
		return ok && mut
	})
	cnt := map[string]int{}
	for f, us := range uses {
		cnt[f.Name()] += len(us)
	}
	r.Check(cnt["Update"] == 0 && cnt["BatchUpdate"] == 0, kp("WMC", "nft.Update#expected=0"), "x/nft Update has no call site in the module (control: Mint has one)", "x/pnft", fmt.Sprint(cnt), fmt.Sprint(cnt))
	r.Floor("nft.Mint-call-sites(control)", cnt["Mint"], 1)
	nftMutatorTableCheck(p, r, kp)

	// D3
	queryFieldUse(p, r, kp, "x/pnft", 6, 7)
	// D5
	pnftViewsAgree(p, r, kp)
	checkInitGenesisCallers(p, r, "C12", "x/pnft")
	checkPnftViewsDoNotRewriteEntities(p, r, kp)
	checkPnftHandlersWriteExportedStateOnly(p, r, kp)
	checkPnftIndexMovesAreSafe(p, r, kp)
	// an in-place migration of the module rewrites no token, class or owner record
	checkModuleMigrationsWriteNoData(p, r, kp)
	checkNoUnseparatedCompositeMapKeys(p, r, func(rule, rest string) string { return rule + ":C12:" + rest }, "x/pnft")
	wireKeyOwnership(p, r, BuildWire(p), "C12", "pnft", []string{"x/pnft/keeper.NewKeeper"}, "denoms and tokens")
}

func nftMintRequiresClass(p *Prog) bool {
	mint := p.Method(nftKeeperPath, "Keeper", "Mint")
	if mint == nil {
		return false
	}
	o := NewOrigin(p, mint)
	o.NoInline = true
	fa := NewFacts(p, mint, o)
	fa.NoExpand = true
	for _, cs := range callSites(mint) {
		if cs.Callee != nil && cs.Callee.Name() == "mintWithNoCheck" {
			_, ok := fa.DominatingFact(cs.Instr, true, func(t *Term) bool {
				return t.IsCall("(sdk/x/nft/keeper.Keeper).HasClass") && len(t.Args) == 3 && t.Args[2].Op == "field" && t.Args[2].Name == "ClassId"
			})
			return ok
		}
	}
	return false
}

// checkIdExcludesDelimiter (C12-D4).
func checkIdExcludesDelimiter(p *Prog, r *Report, kp func(string, string) string, ek, site string, msg *types.Named, id *Term, delim byte, vbRuns bool) {
	rule := "identifiers that enter x/nft's delimiter-joined store keys are request fields that ValidateBasic constrains, on every accepting path, to exclude the delimiter byte"
	f, ok := msgField(id)
	if !ok {
		r.Fail(kp("CONST", ek+"#excludes-delimiter"), rule, site, fmt.Sprintf("identifier %v is not a request field", id))
		return
	}
	vb := p.MethodOf(msg, "ValidateBasic")
	if vb == nil || vb.Blocks == nil {
		r.Fail(kp("CONST", ek+"#excludes-delimiter"), rule, site, "no ValidateBasic")
		return
	}
	o := NewOrigin(p, vb)
	fa := NewFacts(p, vb, o)
	all, n := true, 0
	for _, ex := range successExits(vb) { // nil returns, pass-through returns (`return runChecks(...)`), single-exit forms
		n++
		if !excludesByte(fa.AtExit(ex), func(t *Term) bool { g, ok := msgField(t); return ok && g == f }, delim) {
			all = false
		}
	}
	r.Check(all && n > 0, kp("CONST", ek+"#excludes-delimiter"), rule, p.FnPos(vb),
		fmt.Sprintf("%s.ValidateBasic: all %d accepting paths exclude byte 0x%02x from %s", msg.Obj().Name(), n, delim, f),
		fmt.Sprintf("%s.ValidateBasic accepts a %s containing byte 0x%02x: (\"a\\x00b\",\"c\") and (\"a\",\"b\\x00c\") then share every x/nft key", msg.Obj().Name(), f, delim))
	r.Check(vbRuns, kp("GUARD", ek+"#ValidateBasic-before-keeper"), "the handler itself re-runs ValidateBasic before the keeper call (also covers messages routed without the ante handler)", site,
		"dominated by request.ValidateBasic() == nil", "the keeper call is not dominated by a successful request.ValidateBasic()")
}

// excludesByte: the path condition entails that the string selected by isX does not contain byte b.
func excludesByte(F *Formula, isX func(*Term) bool, b byte) bool {
	bs := fmt.Sprintf("%q", string([]byte{b}))
	for _, a := range F.Atoms() {
		t := a.Term
		if t == nil {
			continue
		}
		switch {
		case (t.IsCall("strings.Contains") || t.IsCall("strings.ContainsAny")) && len(t.Args) == 2 && isX(t.Args[0]) && t.Args[1].Op == "const" && t.Args[1].Name == bs:
			if Entails(F, fNot(a)) {
				return true
			}
		case t.IsCall("strings.ContainsRune") && len(t.Args) == 2 && isX(t.Args[0]) && t.Args[1].Op == "const" && t.Args[1].Name == fmt.Sprint(int(b)):
			if Entails(F, fNot(a)) {
				return true
			}
		case t.IsCall("(*regexp.Regexp).MatchString") || t.Op == "res" && len(t.Args) == 1 && t.Args[0].IsCall("regexp.MatchString"):
			if pat, subj, ok := regexAtom(t); ok && isX(subj) {
				if admits, err := LangAdmitsByte(LangSpec{Pat: pat, Lo: 0, Hi: -1}, b); err == nil && !admits && Entails(F, a) {
					return true
				}
			}
		case t.Op == "eq" || t.Op == "lt":
			// strings.IndexByte(x, b) == -1   /   strings.IndexByte(x, b) < 0
			for i := 0; i < 2; i++ {
				c, k := t.Args[i], t.Args[1-i]
				if c.IsCall("strings.IndexByte") && len(c.Args) == 2 && isX(c.Args[0]) && c.Args[1].Op == "const" && c.Args[1].Name == fmt.Sprint(int(b)) && k.Op == "const" {
					if t.Op == "eq" && k.Name == "-1" && Entails(F, a) {
						return true
					}
					if t.Op == "lt" && i == 0 && k.Name == "0" && Entails(F, a) {
						return true
					}
				}
			}
		}
	}
	return false
}

// regexExcludesByte: pattern is fully anchored and no string of its language contains byte b.
func regexExcludesByte(pat string, b byte) bool {
	re, err := syntax.Parse(pat, syntax.Perl)
	if err != nil {
		return false
	}
	re = re.Simplify()
	if re.Op != syntax.OpConcat || len(re.Sub) < 2 || re.Sub[0].Op != syntax.OpBeginText || re.Sub[len(re.Sub)-1].Op != syntax.OpEndText {
		return false
	}
	var admits func(x *syntax.Regexp) bool
	admits = func(x *syntax.Regexp) bool {
		switch x.Op {
		case syntax.OpLiteral:
			for _, r := range x.Rune {
				if r == rune(b) {
					return true
				}
			}
		case syntax.OpCharClass:
			for i := 0; i+1 < len(x.Rune); i += 2 {
				if x.Rune[i] <= rune(b) && rune(b) <= x.Rune[i+1] {
					return true
				}
			}
		case syntax.OpAnyChar, syntax.OpAnyCharNotNL:
			return true
		}
		for _, s := range x.Sub {
			if admits(s) {
				return true
			}
		}
		return false
	}
	return !admits(re)
}

// queryFieldUse (C12-D3, also used for AOL/DID): every non-pagination field of each query request type is read and used.
func queryFieldUse(p *Prog, r *Report, kp func(string, string) string, mod string, floorHandlers, floorFields int) {
	hs := p.ServerHandlers("QueryServer")[mod]
	r.Floor(mod+"-query-handlers", len(hs), floorHandlers)
	nFields := 0
	for _, fn := range sortedFuncs(hs) {
		hn := FuncName(fn)
		if len(fn.Params) < 3 {
			continue
		}
		pt, ok := fn.Params[2].Type().(*types.Pointer)
		if !ok {
			continue
		}
		st, ok := pt.Elem().Underlying().(*types.Struct)
		if !ok {
			continue
		}
		// collect fields read (FieldAddr / getter) on the request parameter, in the handler and its closures
		used := map[string]bool{}
		var scan func(f *ssa.Function, req ssa.Value)
		scan = func(f *ssa.Function, req ssa.Value) {
			for _, b := range f.Blocks {
				for _, in := range b.Instrs {
					switch x := in.(type) {
					case *ssa.FieldAddr:
						if x.X == req {
							if valueUsed(x) {
								used[fieldName(x.X.Type(), x.Field)] = true
							}
						}
					case *ssa.Call:
						if sc := x.Call.StaticCallee(); sc != nil && len(x.Call.Args) == 1 && x.Call.Args[0] == req {
							if fname, isG := isGeneratedGetter(p, sc); isG && valueUsed(x) {
								used[fname] = true
							}
						}
					}
				}
			}
		}
		scan(fn, fn.Params[2])
		// closures capturing the request (a filter predicate handed to an iteration helper): the captured value is a free variable
		for _, b := range fn.Blocks {
			for _, in := range b.Instrs {
				mc, ok := in.(*ssa.MakeClosure)
				if !ok {
					continue
				}
				cf := mc.Fn.(*ssa.Function)
				for i, bd := range mc.Bindings {
					if i >= len(cf.FreeVars) {
						break
					}
					switch {
					case bd == ssa.Value(fn.Params[2]):
						scan(cf, cf.FreeVars[i])
					default:
						// the parameter spilled to a local whose address is captured: loads of the free variable are the request
						if al, isAl := bd.(*ssa.Alloc); isAl && isParamSpillOf(al, fn.Params[2]) {
							for _, cb := range cf.Blocks {
								for _, cin := range cb.Instrs {
									if u, isU := cin.(*ssa.UnOp); isU && u.X == ssa.Value(cf.FreeVars[i]) {
										scan(cf, u)
									}
								}
							}
						}
					}
				}
			}
		}
		for i := 0; i < st.NumFields(); i++ {
			f := st.Field(i)
			if strings.HasPrefix(f.Name(), "XXX_") || f.Name() == "Pagination" {
				continue
			}
			nFields++
			r.Check(used[f.Name()], kp("FIELDS", hn+"#reads:"+f.Name()), "listing = filter: every non-pagination request field is read and used by its query handler", p.FnPos(fn),
				"request."+f.Name()+" is read and flows into a call or comparison",
				fmt.Sprintf("request field %s is never used by %s: the answer does not depend on it (e.g. a by-owner listing that returns everybody's items)", f.Name(), hn))
		}
	}
	r.Floor(mod+"-query-request-fields", nFields, floorFields)
}

// valueUsed: the address/value is loaded and the loaded value reaches a call argument, comparison, store or return.
func valueUsed(v ssa.Value) bool {
	refs := v.Referrers()
	if refs == nil {
		return false
	}
	for _, r := range *refs {
		switch u := r.(type) {
		case *ssa.DebugRef:
			continue
		case *ssa.UnOp:
			if valueUsed(u) {
				return true
			}
		case ssa.CallInstruction:
			name := calleeName(u.Common())
			if strings.Contains(name, "log.Logger") || strings.HasSuffix(name, "fmt.Sprintf") || strings.HasSuffix(name, "fmt.Println") {
				continue
			}
			return true
		case *ssa.MakeInterface, *ssa.ChangeType, *ssa.Convert, *ssa.Phi, *ssa.Slice, *ssa.FieldAddr, *ssa.Field:
			if valueUsed(u.(ssa.Value)) {
				return true
			}
		default:
			return true
		}
	}
	return false
}

// pnftViewsAgree (C12-D5): every function of the pnft keeper that builds a Pnft from x/nft data uses the same sources per field.
func pnftViewsAgree(p *Prog, r *Report, kp func(string, string) string) {
	type view struct {
		fn   *ssa.Function
		desc map[string]string
		pos  string
	}
	var views []view
	for _, fn := range p.ModFuncs {
		if !(InPkgs(fn, "x/pnft/keeper") || InPkgs(fn, "x/pnft/types")) || p.IsGenerated(fn) {
			continue
		}
		o := NewOrigin(p, fn)
		for _, b := range fn.Blocks {
			for _, in := range b.Instrs {
				al, ok := in.(*ssa.Alloc)
				if !ok || !strings.HasSuffix(al.Type().String(), "x/pnft/types.Pnft") || !al.Heap {
					continue
				}
				lit := o.allocContent(al, nil, nil)
				if lit.Op != "lit" || len(lit.Args) < 5 {
					continue
				}
				// normalise: NFT value = base of ClassId source; META = base of Name source
				nftBase, metaBase := "", ""
				if c := lit.Field("DenomId"); c != nil && c.Op == "field" && c.Name == "ClassId" {
					nftBase = c.Args[0].String()
				}
				if c := lit.Field("Name"); c != nil && c.Op == "field" {
					metaBase = c.Args[0].String()
				}
				if nftBase == "" || metaBase == "" {
					continue // built from a request (mint path), not a view
				}
				d := map[string]string{}
				for _, kv := range lit.Args {
					s := kv.Args[0].String()
					s = strings.ReplaceAll(s, nftBase, "NFT")
					s = strings.ReplaceAll(s, metaBase, "META")
					// owner lookup: ids are parameters or NFT fields — keep only the shape
					if kv.Name == "Owner" {
						if kv.Args[0].IsCall("(sdk/types.AccAddress).String") && kv.Args[0].Args[0].IsCall("(sdk/x/nft/keeper.Keeper).GetOwner") {
							s = "GetOwner(class, token).String()"
						}
					}
					d[kv.Name] = s
				}
				views = append(views, view{fn, d, p.Pos(al.Pos())})
			}
		}
	}
	r.Floor("pnft-views", len(views), 1) // one shared constructor is the refactored form of the three literals
	if len(views) == 0 {
		return
	}
	ref := views[0]
	var fields []string
	for f := range ref.desc {
		fields = append(fields, f)
	}
	sort.Strings(fields)
	r.Floor("pnft-view-fields", len(fields), 10)
	// every field of a view is a field of the stored token itself (the x/nft record or its unpacked metadata) or the owner
	// lookup — nothing computed at read time from other state (a value inherited from the denom changes when the denom does)
	for _, v := range views {
		var bad []string
		for _, f := range fields {
			d := v.desc[f]
			ok := d == "GetOwner(class, token).String()" || strings.HasPrefix(d, "NFT.") && !strings.ContainsAny(d, "(, ") || strings.HasPrefix(d, "META.") && !strings.ContainsAny(d, "(, ")
			if f == "Owner" {
				ok = ok || !strings.Contains(d, "phi(") // an owner handed in by the caller (already looked up)
			}
			if !ok {
				bad = append(bad, fmt.Sprintf("%s = %s", f, clip(d, 120)))
			}
		}
		r.Check(len(bad) == 0, kp("ORIGIN", FuncName(v.fn)+"#view-fields-are-the-stored-token's"),
			"a token view shows the stored token: every field is a field of its x/nft record or of its unpacked metadata (or the owner lookup)", v.pos,
			fmt.Sprintf("%d fields from NFT/META/owner lookup", len(fields)), "fields not taken from the stored token: "+strings.Join(bad, "; ")+" — what the view shows can change without the token changing")
	}
	for _, v := range views[1:] {
		var diffs []string
		for _, f := range fields {
			if v.desc[f] != ref.desc[f] {
				diffs = append(diffs, fmt.Sprintf("%s: %q vs %q", f, v.desc[f], ref.desc[f]))
			}
		}
		for f := range v.desc {
			if _, ok := ref.desc[f]; !ok {
				diffs = append(diffs, "extra field "+f)
			}
		}
		r.Check(len(diffs) == 0, kp("ORIGIN", FuncName(v.fn)+"#view-agrees-with:"+FuncName(ref.fn)),
			"sibling agreement: every view of a token (single item, by denom, by denom and owner) builds each field from the same source", v.pos,
			fmt.Sprintf("%d fields agree", len(fields)), strings.Join(diffs, "; "))
	}
}

// isParamSpillOf: al is the local that holds parameter prm (stored once, at entry).
func isParamSpillOf(al *ssa.Alloc, prm *ssa.Parameter) bool {
	if refs := al.Referrers(); refs != nil {
		for _, rf := range *refs {
			if st, ok := rf.(*ssa.Store); ok && st.Addr == ssa.Value(al) && st.Val == ssa.Value(prm) {
				return true
			}
		}
	}
	return false
}

// checkNftPaginatedQueries (C12-D6, finding F16): x/nft's gRPC queries Classes and NFTs are paginated — a nil page request means
// "the first 100 entries". Module code that needs *all* classes or tokens uses the keeper's full iterators (GetClasses,
// GetNFTsOfClass, GetNFTsOfClassByOwner); a call of a paginated query is legitimate only as a pass-through of the caller's own page
// request (the Denoms listing).
func checkNftPaginatedQueries(p *Prog, r *Report, kp func(string, string) string) {
	rule := "a paginated x/nft query is called only with the caller's own page request handed through; everything that must see all classes or tokens uses the keeper's full iterators (a nil page request silently means the first 100 entries)"
	n := 0
	isQH := map[*ssa.Function]bool{}
	for _, h := range p.ServerHandlers("QueryServer")["x/pnft"] {
		isQH[h] = true
	}
	for _, fn := range p.ModFuncs {
		if !InPkgs(fn, "x/pnft") || p.IsGenerated(fn) || fn.Blocks == nil {
			continue
		}
		var o *Origin
		for _, cs := range callSites(fn) {
			name, ok := isNftKeeperMethod(cs.Callee)
			if cs.Callee == nil || !ok || (name != "Classes" && name != "NFTs") {
				continue
			}
			n++
			if o == nil {
				o = NewOrigin(p, fn)
			}
			args := cs.Instr.Common().Args
			var pag *Term
			if len(args) >= 3 {
				req := o.Of(args[2])
				if req.Op == "addr" && len(req.Args) == 1 {
					req = req.Args[0]
				}
				pag = req.Field("Pagination")
			}
			okP := false
			if pag != nil && isQH[fn] {
				// the enclosing function is the gRPC query handler itself and the page request is its own request's field
				f, isReq := requestField(pag)
				okP = isReq && f == "Pagination" && pag.Op == "field" && len(pag.Args) == 1 && pag.Args[0].Op == "param" && strings.HasPrefix(pag.Args[0].Name, "2:")
			}
			r.Check(okP, kp("ORIGIN", FuncName(fn)+"→nft."+name+"#page-request=req.Pagination"), rule, p.Pos(cs.Instr.Pos()),
				"Pagination: request.Pagination", fmt.Sprintf("%s calls x/nft's paginated %s query with page request %v instead of its own request's Pagination: with no page request the pager returns the first 100 entries only, with a rebuilt one the pages do not tile the listing — items beyond are silently missing from the answer", FuncName(fn), name, pag))
		}
	}
	r.Floor("paginated-nft-query-call-sites", n, 1)
}


// checkPnftIdsExcludeDelimiter: the identifier rule of C12-D4 on its own (shared with C06: two (denom, id) pairs that share x/nft's
// keys share the owner record, so whoever owns one of them transfers and burns the other).
func checkPnftIdsExcludeDelimiter(p *Prog, r *Report, kp func(string, string) string) {
	delim, okD, re, dpos := globalByteSliceLit(p, nftKeeperPath, "Delimiter")
	if !okD || re > 0 || len(delim) != 1 {
		r.Fail(kp("CONST", "nft.Delimiter"), "x/nft's key delimiter is a one-byte constant", p.Pos(dpos), fmt.Sprintf("literal=%v reassigned=%d value=%v", okD, re, delim))
		return
	}
	n := 0
	for _, fn := range sortedFuncs(p.ServerHandlers("MsgServer")["x/pnft"]) {
		hn := FuncName(fn)
		msg := handlerMsgType(fn)
		w := pnftEffectsFrom(p, fn)
		vbRuns := func() bool {
			vb := p.MethodOf(msg, "ValidateBasic")
			o := NewOrigin(p, fn)
			fa := NewFacts(p, fn, o)
			var top ssa.Instruction
			for _, cs := range callSites(fn) {
				if cs.Callee != nil && InPkgs(resolveBound(cs.Callee), "x/pnft/keeper") && !p.IsGenerated(resolveBound(cs.Callee)) {
					top = cs.Instr
				}
			}
			if top == nil || vb == nil {
				return false
			}
			_, ok := fa.DominatingFact(top, true, func(t *Term) bool {
				if t.Op != "eq" {
					return false
				}
				a, b := t.Args[0], t.Args[1]
				if a.Op != "const" {
					a, b = b, a
				}
				return a.Op == "const" && a.Name == "nil" && b.Op == "call" && b.Name == FuncName(vb)
			})
			return ok
		}
		for _, e := range w.effects {
			site := p.Pos(e.Instr.Pos())
			ek := hn + "→" + e.Kind
			switch e.Kind {
			case "nft:Mint":
				n++
				checkIdExcludesDelimiter(p, r, kp, ek+"#Id", site, msg, e.Term.Args[2].Field("Id"), delim[0], vbRuns())
			case "nft:SaveClass":
				n++
				cls := e.Term.Args[2]
				if cls.Op == "deref" {
					cls = cls.Args[0]
				}
				var id *Term
				cls.Walk(func(x *Term) {
					if id == nil && x.Op == "lit" && (strings.HasSuffix(x.Name, "types.Denom") || strings.HasSuffix(x.Name, "x/nft.Class")) {
						id = x.Field("Id")
					}
				})
				checkIdExcludesDelimiter(p, r, kp, ek+"#Id", site, msg, id, delim[0], vbRuns())
			}
		}
	}
	r.Floor("identifier-introducing-effects(pnft)", n, 2)
}


// checkPnftClassDeleteGuard: the class delete of C12-D2 on its own (shared with C08: tokens of a deleted denom are still answered
// by the token queries but are not exported — the export walks the existing denoms).
func checkPnftClassDeleteGuard(p *Prog, r *Report, kp func(string, string) string) {
	n := 0
	for _, fn := range sortedFuncs(p.ServerHandlers("MsgServer")["x/pnft"]) {
		hn := FuncName(fn)
		w := pnftEffectsFrom(p, fn)
		for _, e := range w.effects {
			if e.Kind != "raw:Delete" || e.Key != nil && otherFamilyKey(p, e.Key) {
				continue // not a delete of a class record (a family of the module's own: see checkPnftHandlersWriteExportedStateOnly)
			}
			n++
			ok, wit := false, ""
			for _, a := range e.Cond.Atoms() {
				t := a.Term
				if t == nil || t.Op != "eq" {
					continue
				}
				x, y := t.Args[0], t.Args[1]
				if x.Op != "const" {
					x, y = y, x
				}
				if x.Op == "const" && x.Name == "0" && y.IsCall("(sdk/x/nft/keeper.Keeper).GetTotalSupply") && len(y.Args) == 3 &&
					rawKeyID(e.Key) != nil && y.Args[2].Eq(rawKeyID(e.Key)) && Entails(e.Cond, a) {
					ok, wit = true, a.String()
				}
			}
			r.Check(ok, kp("GUARD", hn+"→"+e.Kind+"#no-tokens-left"), "guarded effect: a class is deleted only when x/nft reports zero supply for the same class id (no orphan tokens)", p.Pos(e.Instr.Pos()), wit,
				"the class delete is not dominated by GetTotalSupply(ctx, same id) == 0: the tokens of a deleted denom are still answered by the token queries, but the export walks the existing denoms only — they are gone after an export/import")
		}
	}
	r.Count("pnft-class-deletes", n)
}


// checkPnftHandlersWriteExportedStateOnly (C08): PNFT handlers change state through the x/nft keeper's class, token and owner
// records — the records the export walks and the import re-creates. A family of the module's own (an index, a counter) is not in the
// genesis file; the import rebuilds it from the exported denoms and tokens. That agrees with what the handlers left only if the
// family is maintained on the way out as well: a family that the creating handler (CreateDenom / MintPNFT) writes must be deleted
// from, or rewritten, by the removing handler (DeleteDenom / BurnPNFT) — otherwise entries of removed entities stay behind on the
// running chain and are absent after an export/import.
func checkPnftHandlersWriteExportedStateOnly(p *Prog, r *Report, kp func(string, string) string) {
	famOf := func(e pnftEffect) string {
		fam := ""
		if e.Key != nil {
			e.Key.Walk(func(x *Term) {
				if fam == "" && x.Op == "call" && strings.Contains(x.Name, "x/pnft/") {
					fam = x.Name
				}
			})
			if fam == "" {
				e.Key.Walk(func(x *Term) {
					if fam == "" && (x.Op == "gval" || x.Op == "const") {
						fam = x.Name
					}
				})
			}
		}
		if fam == "" {
			fam = FuncName(e.Fn)
		}
		return fam
	}
	written := map[string]map[string]pnftEffect{} // handler short name -> family -> a Set effect
	touched := map[string]map[string]bool{}       // handler short name -> families with a Set or Delete
	n := 0
	for _, fn := range sortedFuncs(p.ServerHandlers("MsgServer")["x/pnft"]) {
		hn := fn.Name()
		for _, e := range pnftEffectsFrom(p, fn).effects {
			n++
			if e.Kind != "raw:Set" && e.Kind != "raw:Delete" {
				continue
			}
			if e.Kind == "raw:Delete" && rawKeyID(e.Key) != nil && !otherFamilyKey(p, e.Key) {
				continue // the class delete itself
			}
			f := famOf(e)
			if touched[hn] == nil {
				touched[hn], written[hn] = map[string]bool{}, map[string]pnftEffect{}
			}
			touched[hn][f] = true
			if e.Kind == "raw:Set" {
				written[hn][f] = e
			}
		}
	}
	nBad := 0
	for _, pair := range [][2]string{{"CreateDenom", "DeleteDenom"}, {"MintPNFT", "BurnPNFT"}} {
		for f, e := range written[pair[0]] {
			if touched[pair[1]][f] {
				continue
			}
			nBad++
			r.Fail(kp("WMC", pair[0]+"→raw:Set:"+f+"#maintained-by:"+pair[1]), "a store family of the module's own that the creating handler writes is maintained by the removing handler too (the genesis file does not carry it: the import rebuilds it from the entities that still exist)", p.Pos(e.Instr.Pos()),
				fmt.Sprintf("%s writes %s directly into the pnft store, %s never touches that family: the entry of a removed entity stays behind on the running chain, while a chain started from the export has none — the same query answers differently", pair[0], f, pair[1]))
		}
	}
	if nBad == 0 {
		r.OK(kp("WMC", "pnft-handlers#own-families-maintained"), "a store family of the module's own that the creating handler writes is maintained by the removing handler too", "x/pnft/keeper", fmt.Sprintf("%d effects on the handlers' call trees; no family written on creation and untouched on removal", n))
	}
}


// otherFamilyKey: the key is demonstrably not an x/nft class key — the prefix variables it is built from (directly, or inside the
// module function that builds it) do not include x/nft's ClassKey.
func otherFamilyKey(p *Prog, key *Term) bool {
	var names []string
	collect := func(t *Term) {
		t.Walk(func(x *Term) {
			if x.Op == "gval" || x.Op == "global" {
				names = append(names, x.Name)
			}
		})
	}
	collect(key)
	if len(names) == 0 && key.Op == "call" {
		if g := staticCalleeOfTerm(p, key); g != nil && InModule(g) && g.Blocks != nil {
			o := NewOrigin(p, g)
			for _, ret := range returnsOf(g) {
				for _, rv := range ret.Results {
					collect(o.Of(rv))
				}
			}
			// one level further: a builder on top of a prefix helper
			if len(names) == 0 {
				for _, cs := range callSites(g) {
					if cs.Callee != nil && InModule(cs.Callee) && cs.Callee.Blocks != nil {
						o2 := NewOrigin(p, cs.Callee)
						for _, ret := range returnsOf(cs.Callee) {
							for _, rv := range ret.Results {
								collect(o2.Of(rv))
							}
						}
					}
				}
			}
		}
	}
	if len(names) == 0 {
		return false
	}
	for _, n := range names {
		// a prefix variable of x/nft (ClassKey, NFTKey, OwnerKey, …) or of any package outside the module: x/nft's own records
		if strings.HasSuffix(n, "keeper.ClassKey") || strings.HasPrefix(n, "sdk/") || !InModuleName(n) || aliasOfForeignGlobal(p, n) {
			return false
		}
	}
	return true
}


// aliasOfForeignGlobal: the module's package-level variable is initialised with the value of a variable of a package outside the
// module (`var classKeyPrefix = nftkeeper.ClassKey`): it names that package's prefix, not a family of the module's own.
func aliasOfForeignGlobal(p *Prog, name string) bool {
	i := strings.LastIndex(name, ".")
	if i < 0 {
		return false
	}
	sp := p.SSAPkg(Rel(name[:i]))
	if sp == nil {
		return false
	}
	initFn := sp.Func("init")
	if initFn == nil {
		return false
	}
	for _, b := range initFn.Blocks {
		for _, in := range b.Instrs {
			st, ok := in.(*ssa.Store)
			if !ok {
				continue
			}
			g, ok := st.Addr.(*ssa.Global)
			if !ok || g.Name() != name[i+1:] {
				continue
			}
			if ld, ok := st.Val.(*ssa.UnOp); ok {
				if fg, ok := ld.X.(*ssa.Global); ok && fg.Pkg != nil && !InModulePkg(fg.Pkg) {
					return true
				}
			}
		}
	}
	return false
}

// checkPnftIndexMovesAreSafe (C12): an entry of a family of the module's own that is moved from one key to another (a by-owner
// index on a transfer) is deleted under the old key BEFORE it is written under the new one, or the move is skipped when the two
// keys are equal — `set(new); delete(old)` removes the only entry when old == new (a transfer to oneself), after which the
// listing that reads the index no longer returns the item the single-item view still shows.
func checkPnftIndexMovesAreSafe(p *Prog, r *Report, kp func(string, string) string) {
	n, nBad := 0, 0
	for _, fn := range p.ModFuncs {
		if fn.Blocks == nil || p.IsGenerated(fn) || !inExactPkgs(fn, "x/pnft/keeper") {
			continue
		}
		o := NewOrigin(p, fn)
		type op struct {
			in   ssa.Instruction
			fam  string
			args string
		}
		var sets, dels []op
		for _, cs := range callSites(fn) {
			g := cs.Callee
			if g == nil || !InModule(g) || len(cs.Instr.Common().Args) < 2 {
				continue
			}
			// a one-operation helper of the keeper: Set / Delete of a key built by a module key builder from its parameters
			kind := ""
			var keyFn string
			for _, so := range storeOpsOf(p, resolveBound(g)) {
				if (so.Op == "Set" || so.Op == "Delete") && so.Key != nil && otherFamilyKey(p, so.Key) {
					kind = so.Op
					so.Key.Walk(func(x *Term) {
						if keyFn == "" && x.Op == "call" && strings.Contains(x.Name, "x/pnft/") {
							keyFn = x.Name
						}
					})
				}
			}
			if kind == "" || keyFn == "" {
				continue
			}
			var as []string
			for _, a := range cs.Instr.Common().Args[2:] {
				as = append(as, o.Of(a).String())
			}
			in, _ := cs.Instr.(ssa.Instruction)
			if in == nil {
				continue
			}
			e := op{in: in, fam: keyFn, args: strings.Join(as, ",")}
			if kind == "Set" {
				sets = append(sets, e)
			} else {
				dels = append(dels, e)
			}
		}
		for _, s := range sets {
			for _, d := range dels {
				if s.fam != d.fam || s.args == d.args {
					continue
				}
				n++
				if o.dominates(s.in, d.in) {
					nBad++
					r.Fail(kp("WMC", FuncName(fn)+"#index-move:"+s.fam+"#delete-before-set"), "an index entry that is moved is deleted under its old key before it is written under the new one (or the move is skipped when the keys are equal)", p.Pos(d.in.Pos()),
						fmt.Sprintf("%s writes the entry under the new key and then deletes the old key: when both keys are the same (a transfer to oneself) the only entry is gone — the listing that reads this index loses an item the single-item view still shows", FuncName(fn)))
				}
			}
		}
	}
	if nBad == 0 {
		r.OK(kp("WMC", "pnft-index-moves#delete-before-set"), "an index entry that is moved is deleted under its old key before it is written under the new one (or the move is skipped when the keys are equal)", "x/pnft/keeper", fmt.Sprintf("%d set/delete pairs on a family of the module's own under different keys, none sets before it deletes", n))
	}
}
