package main

// ITERCLOSE — every store iterator opened by module code is closed on every path.
//
// An open iterator pins resources of the underlying database; on the in-memory database (and on some back ends' snapshot
// handling) an abandoned iterator keeps the read lock, and the next Commit — the block-processing goroutine — blocks forever
// behind a query that returned early. Rule: for every call that yields a store iterator, the function defers its Close, or a
// Close on it dominates every return reachable from the call; an iterator that escapes (is returned or handed to another
// function) is that function's business.

import (
	"fmt"
	"strings"

	"golang.org/x/tools/go/ssa"
)

func isIteratorSource(cs CallSite) bool {
	v := cs.Instr.Value()
	if v == nil || !strings.HasSuffix(v.Type().String(), "types.Iterator") {
		return false
	}
	cc := cs.Instr.Common()
	if cc.IsInvoke() {
		n := cc.Method.Name()
		return n == "Iterator" || n == "ReverseIterator"
	}
	return strings.Contains(cs.Name, "Iterator")
}

type iterLeak struct {
	Open ssa.Instruction
	At   ssa.Instruction
}

func iteratorLeaks(fn *ssa.Function) (opens int, leaks []iterLeak) {
	if fn == nil || fn.Blocks == nil {
		return
	}
	o := &Origin{fn: fn}
	for _, cs := range callSites(fn) {
		if !isIteratorSource(cs) {
			continue
		}
		it := cs.Instr.Value()
		opens++
		var closes []ssa.Instruction
		deferred, escapes := false, false
		seen := map[ssa.Value]bool{}
		var follow func(v ssa.Value)
		follow = func(v ssa.Value) {
			if seen[v] {
				return
			}
			seen[v] = true
			refs := v.Referrers()
			if refs == nil {
				return
			}
			for _, rf := range *refs {
				switch x := rf.(type) {
				case *ssa.Defer:
					if x.Call.IsInvoke() && x.Call.Method.Name() == "Close" && x.Call.Value == v {
						deferred = true
					} else {
						for _, a := range x.Call.Args {
							if a == v {
								escapes = true // deferred helper that takes the iterator
							}
						}
					}
				case *ssa.Call:
					if x.Call.IsInvoke() && x.Call.Value == v {
						if x.Call.Method.Name() == "Close" {
							closes = append(closes, x)
						}
						continue
					}
					for _, a := range x.Call.Args {
						if a == v {
							escapes = true
						}
					}
				case *ssa.Return:
					escapes = true
				case *ssa.Store:
					if x.Val == v {
						if al, ok := x.Addr.(*ssa.Alloc); ok {
							// spilled (captured by a deferred closure or re-loaded): follow the loads; a capturing closure is an escape
							for _, r2 := range *al.Referrers() {
								switch y := r2.(type) {
								case *ssa.UnOp:
									follow(y)
								case *ssa.MakeClosure:
									escapes = true
								}
							}
						} else {
							escapes = true
						}
					}
				case *ssa.MakeInterface, *ssa.ChangeInterface, *ssa.Phi:
					follow(x.(ssa.Value))
				case *ssa.MakeClosure:
					escapes = true
				}
			}
		}
		follow(it)
		if deferred || escapes {
			continue
		}
		open := cs.Instr.(ssa.Instruction)
		for _, ret := range returnsOf(fn) {
			// only returns the open can reach
			if !(open.Block() == ret.Block() || open.Block().Dominates(ret.Block()) || reaches(open.Block(), ret.Block())) {
				continue
			}
			closed := false
			for _, c := range closes {
				if o.dominates(c, ret) {
					closed = true
				}
			}
			if !closed {
				leaks = append(leaks, iterLeak{Open: open, At: ret})
				break
			}
		}
	}
	return
}

const iterCloseFixture = `package iterfx

import sdk "github.com/cosmos/cosmos-sdk/types"

func Leaky(store sdk.KVStore, stop func([]byte) bool) error {
	it := store.Iterator(nil, nil)
	for ; it.Valid(); it.Next() {
		if stop(it.Key()) {
			return nil
		}
	}
	return it.Close()
}

func Deferred(store sdk.KVStore, stop func([]byte) bool) {
	it := sdk.KVStorePrefixIterator(store, []byte{})
	defer it.Close()
	for ; it.Valid(); it.Next() {
		if stop(it.Key()) {
			return
		}
	}
}

func ClosedOnAllPaths(store sdk.KVStore, stop func([]byte) bool) error {
	it := store.Iterator(nil, nil)
	found := false
	for ; it.Valid(); it.Next() {
		if stop(it.Key()) {
			found = true
			break
		}
	}
	err := it.Close()
	if found {
		return nil
	}
	return err
}
`

func checkIteratorsClosed(p *Prog, r *Report, clause string) {
	rule := "every store iterator opened by module code is closed on every path (deferred Close, or a Close dominating every return): an abandoned iterator keeps the database's read lock and the next Commit waits for it forever"
	ckey := "ITERCLOSE:" + clause + ":control#fixture"
	if fx, err := buildFixture(p, "iterfx", iterCloseFixture); err != nil {
		r.Undecided(ckey, "positive control for the iterator rule", "checker/iterclose.go", "fixture does not build: "+err.Error())
	} else {
		cnt := func(n string) string { o, l := iteratorLeaks(fx[n]); return fmt.Sprintf("%d:%d", o, len(l)) }
		got := cnt("Leaky") + "/" + cnt("Deferred") + "/" + cnt("ClosedOnAllPaths")
		r.Check(got == "1:1/1:0/1:0", ckey, "positive control: an early return that skips Close is reported; a deferred Close and a Close on the common exit path are not", "checker/iterclose.go (in-memory fixture, not executed)",
			"fixture opens:leaks "+got, "fixture opens:leaks "+got+", expected 1:1/1:0/1:0: the matcher is broken")
	}
	nOpen, nLeak := 0, 0
	for _, fn := range p.ModFuncs {
		if fn.Blocks == nil || p.IsGenerated(fn) || InPkgs(fn, "types/testsuite") {
			continue
		}
		op, leaks := iteratorLeaks(fn)
		nOpen += op
		for i, l := range leaks {
			nLeak++
			r.Fail(fmt.Sprintf("ITERCLOSE:%s:%s#%d", clause, FuncName(fn), i), rule, p.Pos(l.At.Pos()),
				fmt.Sprintf("%s opens a store iterator at %s and returns at %s without closing it (no deferred Close, no Close on that path)", FuncName(fn), p.Pos(l.Open.Pos()), p.Pos(l.At.Pos())))
		}
	}
	if nLeak == 0 {
		r.OK("ITERCLOSE:"+clause+":module#none", rule, "x/*, app/*", fmt.Sprintf("%d iterators opened in module code, all closed on every path", nOpen))
	}
	r.Floor("store-iterators-opened", nOpen, 5)
}
