package main

// DID model and rules shared by C03 (control by authentication key), C04 (sequence), C05 (life cycle), C11 (binding).

import (
	"fmt"
	"go/types"
	"sort"
	"strings"

	"golang.org/x/tools/go/ssa"
)

const didKeeperPkg = "x/did/keeper"
const didTypesPkg = "x/did/types"

type didModel struct {
	p        *Prog
	setters  map[*ssa.Function]bool
	getters  map[*ssa.Function]bool
	iters    map[*ssa.Function]bool
	other    []StoreOp
	handlers map[string]*ssa.Function
	msgOf    map[*ssa.Function]*types.Named
	verifyFn map[*ssa.Function]bool // functions that directly call PubKey.VerifySignature
	proofFn  map[*ssa.Function]bool // module functions from which a verifyFn is reachable (static calls)
	ops      []StoreOp
	extraOps []StoreOp // operations under other prefix variables of the module's store (further families)
}

func buildDidModel(p *Prog) *didModel {
	m := &didModel{p: p, setters: map[*ssa.Function]bool{}, getters: map[*ssa.Function]bool{}, iters: map[*ssa.Function]bool{},
		handlers: map[string]*ssa.Function{}, msgOf: map[*ssa.Function]*types.Named{},
		verifyFn: map[*ssa.Function]bool{}, proofFn: map[*ssa.Function]bool{}}
	root := didKeeperPkg + ".Keeper.storeKey"
	for _, so := range p.StoreOps() {
		if so.KeyRoot != root {
			continue
		}
		// a further family of the module (its own prefix variable next to DIDKeyPrefix) is outside the DID-entry rules
		if pn := PrefixName(so.Prefix); pn != "" && so.Prefix.Op == "gval" && !strings.HasSuffix(pn, "types.DIDKeyPrefix") {
			m.extraOps = append(m.extraOps, so)
			continue
		}
		m.ops = append(m.ops, so)
		keyed := so.Key != nil && so.Key.Op == "conv" && len(so.Key.Args) == 1 && so.Key.Args[0].Op == "param"
		switch {
		case so.Op == "Set" && keyed && !so.Raw:
			m.setters[so.Fn] = true
		case so.Op == "Get" && keyed && !so.Raw:
			m.getters[so.Fn] = true
		case so.Op == "Iterator" && !so.Raw:
			m.iters[so.Fn] = true
		case so.Op == "Has" && !so.Raw:
			// an existence test under the DID prefix: a read, nothing to account for
		default:
			m.other = append(m.other, so)
		}
	}
	if hs := p.ServerHandlers("MsgServer")["x/did"]; hs != nil {
		for _, fn := range hs {
			if len(fn.Params) >= 3 {
				if pt, ok := fn.Params[2].Type().(*types.Pointer); ok {
					if n, ok := pt.Elem().(*types.Named); ok {
						m.handlers[n.Obj().Name()] = fn
						m.msgOf[fn] = n
					}
				}
			}
		}
	}
	// proof functions
	for _, fn := range p.ModFuncs {
		if p.IsGenerated(fn) || !InPkgs(fn, "x/did") {
			continue
		}
		for _, cs := range callSites(fn) {
			if strings.HasSuffix(cs.Name, "crypto.PubKey.VerifySignature") || strings.HasSuffix(cs.Name, "PubKey).VerifySignature") {
				m.verifyFn[fn] = true
			}
		}
	}
	for _, fn := range p.ModFuncs {
		if p.IsGenerated(fn) || !InPkgs(fn, "x/did") {
			continue
		}
		reach := p.ReachFrom([]*ssa.Function{fn}, func(f *ssa.Function) bool { return InModule(f) })
		for v := range m.verifyFn {
			if reach.Has(v) {
				m.proofFn[fn] = true
			}
		}
	}
	return m
}

// stateAtoms maps the atoms of a formula to the three state atoms of a stored entry X:
//
//	n: X.Document == nil     e: X.Document.Id == ""     z: X.Sequence == 0
func didStateOf(f *Formula, X *Term) *Formula {
	switch f.Kind {
	case FAtom:
		t := f.Term
		if t != nil && t.Op == "lt" && len(t.Args) == 2 && t.Args[0].Op == "const" && t.Args[0].Name == "0" &&
			t.Args[1].Op == "field" && t.Args[1].Name == "Sequence" && t.Args[1].Args[0].Eq(X) {
			return fNot(&Formula{Kind: FAtom, Atom: "z"}) // 0 < seq  (unsigned)  ==  seq != 0
		}
		if t != nil && t.Op == "eq" && len(t.Args) == 2 {
			a, b := t.Args[0], t.Args[1]
			if a.Op != "const" {
				a, b = b, a
			}
			if a.Op == "const" {
				switch {
				case a.Name == "nil" && b.Op == "field" && b.Name == "Document" && b.Args[0].Eq(X):
					return &Formula{Kind: FAtom, Atom: "n"}
				case a.Name == `""` && b.Op == "field" && b.Name == "Id" && isDocOf(b.Args[0], X):
					return &Formula{Kind: FAtom, Atom: "e"}
				case a.Name == "0" && b.Op == "field" && b.Name == "Sequence" && b.Args[0].Eq(X):
					return &Formula{Kind: FAtom, Atom: "z"}
				}
			}
		}
		return f
	case FNot, FAnd, FOr:
		g := &Formula{Kind: f.Kind}
		for _, s := range f.Sub {
			g.Sub = append(g.Sub, didStateOf(s, X))
		}
		return g
	}
	return f
}

func isDocOf(t, X *Term) bool {
	if t.Op == "deref" && len(t.Args) == 1 {
		t = t.Args[0]
	}
	return t.Op == "field" && t.Name == "Document" && t.Args[0].Eq(X)
}

func atomF(s string) *Formula { return &Formula{Kind: FAtom, Atom: s} }

var (
	didAbsent    = atomF("n")
	didActive    = fAnd(fNot(atomF("n")), fNot(atomF("e")))
	didTombstone = fAnd(fNot(atomF("n")), atomF("e"), fNot(atomF("z")))
)

type didHandler struct {
	fn      *ssa.Function
	msg     string
	o       *Origin
	fa      *Facts
	set     *ssa.Call
	setT    *Term
	key     *Term
	val     *Term
	get     *Term // the stored entry read under the same key
	proof   *ssa.Call
	proofT  *Term
	kind    string // creating | modifying
	tomb    bool
	storesD *Term // document stored
}

func didRules(p *Prog, r *Report, clause string, want func(string) bool) *didModel {
	m := buildDidModel(p)
	kp := func(rule, rest string) string { return rule + ":" + clause + ":" + rest }
	em := func(tag string, ok bool, key, rule, site, whyOK, whyFail string, w ...interface{}) bool {
		if want(tag) {
			r.Check(ok, key, rule, site, whyOK, whyFail, w...)
		}
		return ok
	}
	// ---- store accounting -----------------------------------------------------------------------
	if want("store") {
		perFn := map[*ssa.Function]int{}
		for _, so := range m.ops {
			perFn[so.Fn]++
		}
		for _, so := range m.ops {
			if so.Op == "Set" || so.Op == "Get" {
				checkAccessorShape(p, r, kp("SHAPE", FuncName(so.Fn)+"#"+so.Op), "unconditional single operation on the marshalled parameter / unmarshalled store value", so, perFn[so.Fn])
			}
		}
		r.Floor("did-setters", len(m.setters), 1)
		r.Floor("did-getters", len(m.getters), 1)
		for _, so := range m.other {
			if so.Op == "Delete" {
				r.Fail(kp("WMC", "store-delete:did#expected=0:"+FuncName(so.Fn)), "nothing deletes from the DID store (tombstones are permanent)", p.Pos(so.Instr.Pos()),
					FuncName(so.Fn)+" deletes from the DID store")
			} else {
				r.Undecided(kp("FAMILY", "did-store-op:"+FuncName(so.Fn)+"#"+so.Op), "every operation on the did store is a keyed accessor", p.Pos(so.Instr.Pos()),
					fmt.Sprintf("%s performs %s with key %s outside the accessor shape", FuncName(so.Fn), so.Op, so.Key))
			}
		}
		// further families of the did store: their prefix does not overlap the DID prefix (entries can never be read as DID entries)
		if len(m.extraOps) > 0 {
			dv, dok, _, _ := globalByteSliceLit(p, Rel("x/did/types"), "DIDKeyPrefix")
			seen := map[string]bool{}
			for _, so := range m.extraOps {
				pn := PrefixName(so.Prefix)
				if seen[pn] {
					continue
				}
				seen[pn] = true
				pp, name := splitGlobal(pn)
				ev, eok, re, pos := globalByteSliceLit(p, pp, name)
				clash := !dok || !eok || re > 0 || len(ev) == 0 || strings.HasPrefix(string(ev), string(dv)) || strings.HasPrefix(string(dv), string(ev))
				r.Check(!clash, kp("CONST", "prefix-free:DID|"+familyOfPrefix(pn)), "a further family of the did store lives under a constant prefix that does not overlap the DID prefix", p.Pos(pos),
					fmt.Sprintf("%x vs %x", dv, ev), fmt.Sprintf("prefix %s (%x, literal=%v, reassigned=%d) overlaps the DID prefix %x: its entries share store keys with DID documents", pn, ev, eok, re, dv))
			}
		}
		nDel := 0
		for _, so := range m.ops {
			if so.Op == "Delete" {
				nDel++
			}
		}
		r.OK(kp("WMC", "store-delete:did#expected=0"), "nothing deletes from the DID store (positive control: the Set accessor was found)", didKeeperPkg,
			fmt.Sprintf("%d Delete operations, %d Set accessors", nDel, len(m.setters)))
		initGen := p.Func(Rel("x/did"), "InitGenesis")
		for s := range m.setters {
			callers, uses := p.CallersOf(s)
			for _, u := range uses {
				if !u.Call {
					r.Fail(kp("WMC", FuncName(s)+"#escapes-as-value:"+FuncName(u.In)), "the setter is only called directly", p.Pos(u.Instr.Pos()), "taken as a function value")
				}
			}
			for _, c := range callers {
				key := kp("WMC", FuncName(s)+"<-"+FuncName(c))
				switch {
				case m.msgOf[c] != nil || c == initGen:
					r.OK(key, "who may write DID entries: message handlers (under the proof schema) and InitGenesis", p.FnPos(c), FuncName(c))
				case InPkgs(c, "types/testsuite"):
					r.OKTrivial(key, "test-support package", p.FnPos(c), "types/testsuite")
				case p.transparent(c) && didCalledOnlyFromHandlers(p, m, c, 0):
					// an extracted tail of the handlers ("build the entry and store it"): the handler's own analysis descends into it
					r.OK(key, "who may write DID entries: message handlers (under the proof schema) and InitGenesis", p.FnPos(c), FuncName(c)+": a helper called only from message handlers, analysed as part of each of them")
				default:
					r.Fail(key, "who may write DID entries: message handlers (under the proof schema) and InitGenesis", p.FnPos(c),
						fmt.Sprintf("%s writes a DID entry but is neither a MsgServer handler nor InitGenesis: the ownership-proof schema does not cover it", FuncName(c)))
				}
			}
		}
	}
	// ---- handlers -------------------------------------------------------------------------------
	var names []string
	for n := range m.handlers {
		names = append(names, n)
	}
	sort.Strings(names)
	r.Floor("did-handlers", len(names), 3)
	var proofFns = map[*ssa.Function]bool{}
	nWriting := 0
	defer func() { r.Floor("did-handlers-recognised-as-writing", nWriting, 3) }()
	for _, msgName := range names {
		fn := m.handlers[msgName]
		hn := FuncName(fn)
		h := &didHandler{fn: fn, msg: msgName, o: NewOrigin(p, fn)}
		h.fa = NewFacts(p, fn, h.o)
		var sets []*ssa.Call
		var setTerms []*Term
		for _, cs := range callSites(fn) {
			if cs.Callee != nil && m.setters[resolveBound(cs.Callee)] {
				if c, ok := cs.Instr.(*ssa.Call); ok {
					sets = append(sets, c)
					setTerms = append(setTerms, nil)
				}
			}
		}
		if len(sets) == 0 {
			// the write may sit in a transparent helper the handler calls ("build the entry and store it"): the call in the handler
			// stands for it, with the helper's parameters replaced by the handler's arguments
			for _, vc := range h.o.VirtualCalls() {
				if vc.Direct || vc.Callee == nil || !m.setters[resolveBound(vc.Callee)] || vc.Term == nil || !vc.Always {
					continue
				}
				if rc, ok := vc.Root.(*ssa.Call); ok {
					sets = append(sets, rc)
					setTerms = append(setTerms, vc.Term)
				}
			}
		}
		if len(sets) == 0 {
			r.Note("%s writes nothing to the DID store", hn)
			continue
		}
		nWriting++
		if len(sets) > 1 {
			r.Undecided(kp("SCHEMA", hn), "a DID handler writes exactly one entry", p.FnPos(fn), fmt.Sprintf("%d writes in one handler", len(sets)))
			continue
		}
		h.set = sets[0]
		h.setT = h.o.Of(h.set)
		if setTerms[0] != nil {
			h.setT = setTerms[0]
		}
		site := p.Pos(h.set.Pos())
		if h.setT.Op != "call" || len(h.setT.Args) != 4 {
			r.Undecided(kp("SCHEMA", hn+"#setter-args"), "setter call shape", site, h.setT.String())
			continue
		}
		h.key, h.val = h.setT.Args[2], h.setT.Args[3]
		keyF, okKey := msgField(h.key)
		em("bind", okKey, kp("ORIGIN", hn+"#key=msg-field"), "the entry is written under an identifier taken from the message", site, "key = msg."+keyF, "key = "+h.key.String())
		// the entry read under the same key — directly, or inside a transparent helper on every one of its success paths
		for _, vc := range h.o.VirtualCalls() {
			if vc.Callee == nil || !m.getters[resolveBound(vc.Callee)] || vc.Term == nil || !vc.Always {
				continue
			}
			rootI, ok := vc.Root.(ssa.Instruction)
			if !ok {
				continue
			}
			t := vc.Term
			if t.Op == "call" && len(t.Args) == 3 && t.Args[2].Eq(h.key) && h.o.dominates(rootI, h.set) {
				h.get = t
			}
		}
		if h.get == nil {
			r.Fail(kp("GUARD", hn+"#reads-current-entry"), "the handler reads the current entry under the key it writes", site,
				"no dominating read of the DID store under the written key: existence, deactivation and sequence cannot be checked")
			continue
		}
		// life-cycle guard
		F := didStateOf(h.fa.At(h.set.Block()), h.get)
		switch {
		case Entails(F, fNot(fOr(didActive, didTombstone))):
			h.kind = "creating"
		case Entails(F, didActive):
			h.kind = "modifying"
		}
		em("life", h.kind != "", kp("GUARD", hn+"→SetDIDDocument#state"), "guarded effect: a write happens only if the stored entry is absent (create) or active (update/deactivate); an existing entry or a tombstone is never overwritten by a create, a tombstone or missing entry never by an update",
			site, "stored entry is "+map[string]string{"creating": "absent", "modifying": "active"}[h.kind]+" on every path to the write",
			"the path condition at the write ("+F.String()+") admits a tombstone or an existing entry (for a create) / a missing or tombstone entry (for an update)")
		if h.kind == "" {
			continue
		}
		// value written
		if h.val.Op != "lit" {
			r.Undecided(kp("ORIGIN", hn+"#value"), "the value written is built in the handler", site, h.val.String())
			continue
		}
		doc, seq := h.val.Field("Document"), h.val.Field("Sequence")
		if doc != nil && doc.Op == "addr" && doc.Args[0].Op == "lit" && len(doc.Args[0].Args) == 0 {
			h.tomb = true
		}
		// proof call
		for _, cs := range callSites(fn) {
			if cs.Callee != nil && m.proofFn[resolveBound(cs.Callee)] && !m.setters[resolveBound(cs.Callee)] {
				if c, ok := cs.Instr.(*ssa.Call); ok && h.o.dominates(c, h.set) {
					h.proof = c
				}
			}
		}
		if h.proof == nil {
			em("proof", false, kp("GUARD", hn+"→SetDIDDocument#ownership-proof"), "the write is dominated by a successful ownership proof", site, "",
				"no call to a function that reaches PubKey.VerifySignature dominates the write")
			continue
		}
		proofFns[resolveBound(h.proof.Call.StaticCallee())] = true
		h.proofT = h.o.Of(h.proof)
		_, okP := h.fa.DominatingFact(h.set, true, func(t *Term) bool {
			if t.Op != "eq" {
				return false
			}
			a, b := t.Args[0], t.Args[1]
			if a.Op != "const" {
				a, b = b, a
			}
			c, k := b.Res()
			return a.Op == "const" && a.Name == "nil" && b.Op == "res" && k == 1 && c.Eq(h.proofT)
		})
		em("proof", okP, kp("GUARD", hn+"→SetDIDDocument#ownership-proof"), "guarded effect: the write is dominated by the fact proof(...).err == nil", site,
			FuncName(h.proof.Call.StaticCallee())+" returned a nil error on every path to the write",
			"the write is reachable without a successful result of "+FuncName(h.proof.Call.StaticCallee()))
		// argument roles of the proof function
		roles, why := proofRoles(p, m, h.proof.Call.StaticCallee())
		if roles == nil {
			r.Undecided(kp("ORIGIN", hn+"#proof-roles"), "the proof function's parameters have identifiable roles", p.FnPos(h.proof.Call.StaticCallee()), why)
			continue
		}
		arg := func(role string) *Term {
			i, ok := roles[role]
			if !ok || i >= len(h.proofT.Args) {
				return nil
			}
			return h.proofT.Args[i]
		}
		aDoc, aSeq, aData, aID, aSig := arg("doc"), arg("seq"), arg("data"), arg("id"), arg("sig")
		idF, okID := msgField(aID)
		sigF, okSig := msgField(aSig)
		em("proof", okID && okSig && idF != sigF, kp("ORIGIN", hn+"#proof(id,sig)=msg-fields"), "the key id and the signature checked are the message's own", p.Pos(h.proof.Pos()),
			fmt.Sprintf("id=msg.%s sig=msg.%s", idF, sigF), fmt.Sprintf("id=%v sig=%v", aID, aSig))
		if h.kind == "creating" {
			em("proof", aDoc != nil && doc != nil && aDoc.Eq(doc), kp("ORIGIN", hn+"#proof.doc=submitted-document"),
				"a DID is created with a proof by a key listed in the submitted document itself (the one that gets stored)", p.Pos(h.proof.Pos()),
				"doc ≡ stored Document ≡ "+fmt.Sprint(doc), fmt.Sprintf("keys are looked up in %v but %v is stored", aDoc, doc))
			em("seq", aSeq != nil && aSeq.Op == "const" && aSeq.Name == "0", kp("ORIGIN", hn+"#proof.seq=InitialSequence"), "creation proof is made over sequence 0", p.Pos(h.proof.Pos()),
				"seq ≡ 0", fmt.Sprintf("seq = %v", aSeq))
			em("seq", seq != nil && seq.Op == "const" && seq.Name == "0", kp("ORIGIN", hn+"#stored.Sequence=InitialSequence"), "a new DID starts at sequence 0", site,
				"Sequence ≡ 0", fmt.Sprintf("Sequence = %v", seq))
		} else {
			okDoc := aDoc != nil && aDoc.Op == "field" && aDoc.Name == "Document" && aDoc.Args[0].Eq(h.get)
			em("proof", okDoc, kp("ORIGIN", hn+"#proof.doc=stored-document"),
				"an existing DID is changed only with a proof by a key of the currently *stored* document (read under the key being written)", p.Pos(h.proof.Pos()),
				"doc ≡ GetDIDDocument(ctx, key).Document", fmt.Sprintf("keys are looked up in %v, not in the stored document %v.Document", aDoc, h.get))
			okSeq := aSeq != nil && aSeq.Op == "field" && aSeq.Name == "Sequence" && aSeq.Args[0].Eq(h.get)
			em("seq", okSeq, kp("ORIGIN", hn+"#proof.seq=stored-sequence"), "the proof is checked against the stored sequence of the same entry", p.Pos(h.proof.Pos()),
				"seq ≡ GetDIDDocument(ctx, key).Sequence", fmt.Sprintf("seq = %v", aSeq))
			c, k := seq.Res()
			okNew := seq != nil && seq.Op == "res" && k == 0 && c.Eq(h.proofT)
			em("seq", okNew, kp("ORIGIN", hn+"#stored.Sequence=proof-result"), "the sequence stored is the one the successful proof returned (stored+1)", site,
				"Sequence ≡ proof(...)[0]", fmt.Sprintf("Sequence = %v", seq))
		}
		// what is signed
		if h.tomb {
			// deactivation: the signed datum names the DID being deactivated
			d := aData
			if d != nil && d.Op == "addr" {
				d = d.Args[0]
			}
			okTomb := d != nil && d.Op == "lit" && d.Field("Id") != nil && d.Field("Id").Eq(h.key) && len(d.Args) == 1
			em("bind", okTomb, kp("ORIGIN", hn+"#signed=DIDDocument{Id:key}"), "a deactivation proof is made over a document naming exactly the DID being deactivated", p.Pos(h.proof.Pos()),
				"signData ≡ &DIDDocument{Id: msg."+keyF+"}", fmt.Sprintf("signData = %v, key = %v", aData, h.key))
			em("proof", okTomb, kp("ORIGIN", hn+"#proof.data"), "the signature is over the new content", p.Pos(h.proof.Pos()), "tombstone request for the key", fmt.Sprint(aData))
		} else {
			em("proof", aData != nil && doc != nil && aData.Eq(doc), kp("ORIGIN", hn+"#proof.data=stored-document"),
				"the signature is over the very document that gets stored", p.Pos(h.proof.Pos()), "signData ≡ stored Document", fmt.Sprintf("signData = %v but %v is stored", aData, doc))
			df, okD := msgField(doc)
			em("proof", okD, kp("ORIGIN", hn+"#stored-document=msg-field"), "the stored document is the message's", site, "msg."+df, fmt.Sprint(doc))
			// C11: did == document.id, in the handler or in ValidateBasic
			if want("bind") && okD && okKey {
				checkDidBinding(p, r, kp, h, m.msgOf[fn], keyF, df)
			}
		}
	}
	if want("proofbody") {
		for pf := range proofFns {
			checkProofBody(p, r, kp, m, pf)
		}
		for v := range m.verifyFn {
			checkVerifyBody(p, r, kp, v)
		}
		r.Floor("functions-calling-VerifySignature", len(m.verifyFn), 1)
	}
	return m
}

// proofRoles determines which parameter of the proof function plays which role, from its own body:
//
//	data/seq/sig = parameters reaching the verify function's data/seq/sig, doc = parameter whose Authentications field
//	feeds the key lookup, id = the remaining string parameter used in that lookup.
func proofRoles(p *Prog, m *didModel, pf *ssa.Function) (map[string]int, string) {
	if pf == nil {
		return nil, "proof function is not statically resolved"
	}
	if m.verifyFn[pf] {
		return nil, "handler calls the signature check directly"
	}
	o := NewOrigin(p, pf)
	var vcall *Term
	var vfn *ssa.Function
	for _, vc := range o.VirtualCalls() { // directly, or inside a transparent helper the proof function delegates to
		if vc.Callee != nil && m.verifyFn[resolveBound(vc.Callee)] && vc.Term != nil {
			vcall = vc.Term
			vfn = resolveBound(vc.Callee)
		}
	}
	if vcall == nil || vcall.Op != "call" {
		return nil, "no direct call to a function invoking VerifySignature"
	}
	vr, why := verifyRoles(p, vfn)
	if vr == nil {
		return nil, why
	}
	roles := map[string]int{}
	paramIdx := func(t *Term) int {
		if t != nil && t.Op == "param" {
			var i int
			fmt.Sscanf(t.Name, "%d:", &i)
			return i
		}
		return -1
	}
	for _, role := range []string{"data", "seq", "sig"} {
		i := paramIdx(vcall.Args[vr[role]])
		if i < 0 {
			return nil, fmt.Sprintf("the %s given to %s is not a parameter of %s: %v", role, FuncName(vfn), FuncName(pf), vcall.Args[vr[role]])
		}
		roles[role] = i
	}
	// doc: parameter whose Authentications feeds the public key
	pk := vcall.Args[vr["pubkey"]]
	docIdx, idIdx := -1, -1
	pk.Walk(func(t *Term) {
		if t.Op == "field" && t.Name == "Authentications" && len(t.Args) == 1 {
			if i := paramIdx(t.Args[0]); i >= 0 {
				docIdx = i
			}
		}
	})
	if docIdx < 0 {
		return nil, "the verifying key does not derive from the Authentications of a document parameter: " + pk.String()
	}
	roles["doc"] = docIdx
	pk.Walk(func(t *Term) {
		if i := paramIdx(t); i >= 0 && i != docIdx {
			if _, isStr := pf.Params[i].Type().Underlying().(*types.Basic); isStr {
				used := false
				for _, v := range roles {
					if v == i {
						used = true
					}
				}
				if !used {
					idIdx = i
				}
			}
		}
	})
	if idIdx < 0 {
		return nil, "no key-id parameter found in the key lookup"
	}
	roles["id"] = idIdx
	return roles, ""
}

// verifyRoles: argument positions (in the call term, receiver-free function) of pubkey, data, seq, sig of the function that
// directly calls VerifySignature(signBytes(data, seq), sig).
func verifyRoles(p *Prog, v *ssa.Function) (map[string]int, string) {
	o := NewOrigin(p, v)
	for _, cs := range callSites(v) {
		if !strings.HasSuffix(cs.Name, "VerifySignature") {
			continue
		}
		c, ok := cs.Instr.(*ssa.Call)
		if !ok {
			continue
		}
		t := o.Of(c)
		if t.Op != "call" || len(t.Args) != 3 {
			return nil, "unexpected VerifySignature call shape"
		}
		idx := func(t *Term) int {
			if t.Op == "param" {
				var i int
				fmt.Sscanf(t.Name, "%d:", &i)
				return i
			}
			return -1
		}
		roles := map[string]int{"pubkey": idx(t.Args[0]), "sig": idx(t.Args[2])}
		msg := t.Args[1]
		if msg.Op != "call" || len(msg.Args) != 2 {
			return nil, "signed bytes are not built by a (data, seq) helper: " + msg.String()
		}
		roles["data"], roles["seq"] = idx(msg.Args[0]), idx(msg.Args[1])
		for k, i := range roles {
			if i < 0 {
				return nil, "role " + k + " of " + FuncName(v) + " is not a parameter"
			}
		}
		return roles, ""
	}
	return nil, "no VerifySignature call"
}

// checkDidBinding (C11-D1): did == document.id holds at the write, established in the handler or on every
// nil-returning path of the message's ValidateBasic.
func checkDidBinding(p *Prog, r *Report, kp func(string, string) string, h *didHandler, msg *types.Named, didF, docF string) {
	hn := FuncName(h.fn)
	match := func(t *Term) bool {
		if t.Op != "eq" {
			return false
		}
		isDid := func(x *Term) bool { f, ok := msgField(x); return ok && f == didF }
		isDocID := func(x *Term) bool {
			if x.Op != "field" || x.Name != "Id" {
				return false
			}
			b := x.Args[0]
			if b.Op == "deref" {
				b = b.Args[0]
			}
			f, ok := msgField(b)
			return ok && f == docF
		}
		return isDid(t.Args[0]) && isDocID(t.Args[1]) || isDid(t.Args[1]) && isDocID(t.Args[0])
	}
	if w, ok := h.fa.DominatingFact(h.set, true, match); ok {
		r.OK(kp("GUARD", hn+"#"+didF+"==document.id"), "a caller-supplied document is stored under DID d only if document.id == d", p.Pos(h.set.Pos()), "established in the handler: "+w)
		return
	}
	vb := p.MethodOf(msg, "ValidateBasic")
	if vb == nil || vb.Blocks == nil {
		r.Fail(kp("GUARD", hn+"#"+didF+"==document.id"), "a caller-supplied document is stored under DID d only if document.id == d", p.Pos(h.set.Pos()), "no comparison in the handler and no ValidateBasic")
		return
	}
	vo := NewOrigin(p, vb)
	vf := NewFacts(p, vb, vo)
	all := true
	n := 0
	for _, ret := range successReturns(vb) { // nil returns and pass-through returns (`return helper(...)`) alike
		n++
		if _, ok := vf.DominatingFact(ret, true, match); !ok {
			all = false
		}
	}
	r.Check(all && n > 0, kp("GUARD", hn+"#"+didF+"==document.id"),
		"validation coverage: every nil-returning path of the message's ValidateBasic (run by baseapp before the handler) is dominated by msg.Did == msg.Document.Id, or the handler compares them before the write",
		p.FnPos(vb), fmt.Sprintf("%d accepting path(s) of %s.ValidateBasic all establish %s == %s.Id", n, msg.Obj().Name(), didF, docF),
		fmt.Sprintf("neither %s nor %s.ValidateBasic compares msg.%s with msg.%s.Id on every accepting path: the registry can hold, under DID A, a document describing DID B (and a proof made for B writes A)", hn, msg.Obj().Name(), didF, docF))
}

// checkProofBody (C03-D3): inside the proof function every nil-error return is dominated by: key found in Authentications,
// key type gate, public key decoded, signature verified with that key; and returns the verify function's sequence unchanged (C04-D2).
func checkProofBody(p *Prog, r *Report, kp func(string, string) string, m *didModel, pf *ssa.Function) {
	pn := FuncName(pf)
	o := NewOrigin(p, pf)
	fa := NewFacts(p, pf, o)
	var vcallI *ssa.Call
	var vfn *ssa.Function
	var vT *Term
	for _, vc := range o.VirtualCalls() {
		if vc.Callee != nil && m.verifyFn[resolveBound(vc.Callee)] && vc.Term != nil {
			vcallI, _ = vc.Instr.(*ssa.Call)
			vfn = resolveBound(vc.Callee)
			vT = vc.Term
		}
	}
	if vcallI == nil {
		r.Undecided(kp("GUARD", pn+"#verify-call"), "proof function calls the signature check", p.FnPos(pf), "no call found")
		return
	}
	vr, why := verifyRoles(p, vfn)
	if vr == nil {
		r.Undecided(kp("GUARD", pn+"#verify-roles"), "verify function roles", p.FnPos(vfn), why)
		return
	}
	pk := vT.Args[vr["pubkey"]]
	// lookup call: the call whose arguments include X.Authentications
	var lookup *Term
	pk.Walk(func(t *Term) {
		if t.Op == "call" {
			for _, a := range t.Args {
				if a.Op == "field" && a.Name == "Authentications" {
					lookup = t
				}
			}
		}
	})
	forbidden := []string{"AssertionMethods", "KeyAgreements", "CapabilityInvocations", "CapabilityDelegations", "VerificationMethods"}
	bad := ""
	pk.Walk(func(t *Term) {
		if t.Op == "field" {
			for _, f := range forbidden {
				if t.Name == f {
					bad = f
				}
			}
		}
	})
	r.Check(lookup != nil && bad == "", kp("ORIGIN", pn+"#key-from-Authentications"),
		"provenance: the verifying key is looked up in the Authentications relationship of the document parameter and in no other relationship", p.Pos(vcallI.Pos()),
		"key ≡ lookup(doc.Authentications, id)", fmt.Sprintf("the verifying key derives from %s (lookup=%v)", map[bool]string{true: "doc." + bad, false: "no Authentications lookup"}[bad != ""], lookup))
	succ := successReturns(pf)
	r.Floor("success-returns-of-"+pn, len(succ), 1)
	for i, ret := range succ {
		site := p.Pos(ret.Pos())
		tag := fmt.Sprintf("%s#return%d", pn, i)
		// (a) lookup ok
		if lookup != nil {
			_, ok := fa.DominatingFact(ret, true, func(t *Term) bool {
				c, k := t.Res()
				return t.Op == "res" && k == 1 && c.Eq(lookup)
			})
			r.Check(ok, kp("GUARD", tag+"#key-listed"), "success only if the key id is listed under authentication (lookup ok == true)", site, "dominated by lookup(...).ok", "a nil error can be returned although the key lookup failed")
		}
		// (b) key type gate
		F := fa.AtInstrX(ret)
		var typeAtoms []*Formula
		for _, a := range F.Atoms() {
			if a.Term != nil && a.Term.Op == "eq" {
				x, y := a.Term.Args[0], a.Term.Args[1]
				if x.Op != "const" {
					x, y = y, x
				}
				if x.Op == "const" && y.Op == "field" && y.Name == "Type" && lookup != nil && y.Contains(func(t *Term) bool { return t.Eq(lookup) }) {
					typeAtoms = append(typeAtoms, a)
				}
			}
		}
		okGate := false
		var allowed []string
		if len(typeAtoms) > 0 {
			okGate = Entails(F, fOr(typeAtoms...))
			for _, a := range typeAtoms {
				x := a.Term.Args[0]
				if x.Op != "const" {
					x = a.Term.Args[1]
				}
				allowed = append(allowed, x.Name)
			}
			sort.Strings(allowed)
			// the admitted set must be exactly the two secp256k1 key types
			es19, _ := p.ConstVal(Rel(didTypesPkg), "ES256K_2019")
			es18, _ := p.ConstVal(Rel(didTypesPkg), "ES256K_2018")
			wantSet := []string{es19, es18}
			sort.Strings(wantSet)
			if strings.Join(allowed, ",") != strings.Join(wantSet, ",") {
				okGate = false
			}
		}
		r.Check(okGate, kp("GUARD", tag+"#key-type-gate"), "success only if the key type is one of the two secp256k1 verification key types", site,
			"Type ∈ "+strings.Join(allowed, " | "), "the key-type gate is missing, widened or narrowed (types tested: "+strings.Join(allowed, ",")+")")
		// (c) signature verified with that key
		_, okV := fa.DominatingFact(ret, true, func(t *Term) bool {
			c, k := t.Res()
			return t.Op == "res" && k == 1 && c.Eq(vT)
		})
		r.Check(okV, kp("GUARD", tag+"#signature-verified"), "success only if the signature check returned true", site, "dominated by verify(...).ok", "a nil error can be returned although verification failed or was skipped")
		// (d) pubkey decoded successfully from the looked-up method
		okPK := false
		c, k := pk.Res()
		// the decoder's operand is the method's PublicKeyBase58, possibly already base58-decoded by a wrapper that was looked through
		src := (*Term)(nil)
		if c != nil && c.Op == "call" && len(c.Args) == 1 {
			src = c.Args[0]
			if src.IsCall("base58.Decode") && len(src.Args) == 1 {
				src = src.Args[0]
			}
		}
		if pk.Op == "res" && k == 0 && src != nil && src.Op == "field" && src.Name == "PublicKeyBase58" {
			_, okPK = fa.DominatingFact(ret, true, func(t *Term) bool {
				if t.Op != "eq" {
					return false
				}
				a, b := t.Args[0], t.Args[1]
				if a.Op != "const" {
					a, b = b, a
				}
				cc, kk := b.Res()
				return a.Name == "nil" && b.Op == "res" && kk == 1 && cc.Eq(c)
			})
		}
		r.Check(okPK, kp("GUARD", tag+"#pubkey-decoded"), "the key used is the successfully decoded PublicKeyBase58 of the looked-up method", site, "decode error == nil dominates", "pubkey term: "+pk.String())
		// (d2) the decoder accepts exactly the bytes of one key: its success lies behind an exact-length test of the decoded bytes
		// (`<` for `!=` lets longer material through; copy() then silently keeps its prefix, and the holder of the prefix key controls)
		if cv, isCall := c.Val.(*ssa.Call); okPK && isCall && cv.Call.StaticCallee() != nil && InModule(cv.Call.StaticCallee()) {
			g := cv.Call.StaticCallee()
			gO := NewOrigin(p, g)
			gFa := NewFacts(p, g, gO)
			pinned, nSucc := true, 0
			for _, gret := range returnsOf(g) {
				if !isNilConst(unspill(gret.Results[len(gret.Results)-1])) {
					continue
				}
				nSucc++
				F := gFa.At(gret.Block())
				found := false
				for _, a := range F.Atoms() {
					t := a.Term
					if t == nil || t.Op != "eq" || len(t.Args) != 2 {
						continue
					}
					for _, side := range t.Args {
						if side.IsCall("builtin:len") && len(side.Args) == 1 && (side.Args[0].Contains(func(x *Term) bool { return x.Op == "call" && strings.Contains(x.Name, "Decode") }) || side.Args[0].Op == "param" && side.Args[0].Val != nil && isByteSlice(side.Args[0].Val.Type())) && Entails(F, a) {
							found = true
						}
					}
				}
				if !found {
					pinned = false
				}
			}
			r.Check(pinned && nSucc > 0, kp("GUARD", tag+"#pubkey-length-exact"), "the key decoder accepts only material of exactly one key's length", p.FnPos(g),
				"success ⇒ len(decoded) == key size", FuncName(g)+" can succeed without an exact-length test of the decoded bytes: longer material is truncated to its first bytes and the holder of that prefix key passes the proof")
		}
		// (e) C04-D2: returns verify's sequence unchanged
		rt := o.Of(ret.Results[0])
		cc, kk := rt.Res()
		r.Check(rt.Op == "res" && kk == 0 && cc.Eq(vT), kp("ORIGIN", tag+"#returns-verify-sequence"), "the proof function returns the verify function's new sequence unchanged", site,
			"result ≡ verify(...)[0]", "result = "+rt.String())
	}
}

// checkVerifyBody (C03-D4, C04-D2): true only under VerifySignature(B(data, seq), sig) == true; first result = seq+1 of the same seq;
// the sign bytes are Marshal(DataWithSeq{Data: Marshal(data), Sequence: seq}).
func checkVerifyBody(p *Prog, r *Report, kp func(string, string) string, v *ssa.Function) {
	vn := FuncName(v)
	if v.Signature.Results().Len() != 2 {
		r.Note("%s calls VerifySignature but is not a (seq, ok) verifier; not part of the DID proof path", vn)
		return
	}
	o := NewOrigin(p, v)
	fa := NewFacts(p, v, o)
	vr, why := verifyRoles(p, v)
	if vr == nil {
		r.Undecided(kp("GUARD", vn+"#roles"), "verify function roles", p.FnPos(v), why)
		return
	}
	var sigCall *Term
	var signBytes *ssa.Function
	for _, cs := range callSites(v) {
		if strings.HasSuffix(cs.Name, "VerifySignature") {
			sigCall = o.Of(cs.Instr.(*ssa.Call))
			if c, ok := cs.Instr.(*ssa.Call).Call.Args[0].(*ssa.Call); ok {
				signBytes = c.Call.StaticCallee()
			}
		}
	}
	nTrue := 0
	for i, ret := range returnsOf(v) {
		okv, isConst := asConst(ret.Results[1])
		if isConst && okv.Value != nil && okv.Value.String() == "false" {
			continue
		}
		nTrue++
		site := p.Pos(ret.Pos())
		_, ok := fa.DominatingFact(ret, true, func(t *Term) bool { return t.Eq(sigCall) })
		r.Check(ok, kp("GUARD", fmt.Sprintf("%s#return%d#VerifySignature=true", vn, i)), "`true` is returned only under the fact pubKey.VerifySignature(signBytes(data, seq), sig) == true", site,
			"dominated", "the verifier can report success without a successful VerifySignature")
		rt := o.Of(ret.Results[0])
		seqParam := fmt.Sprintf("%d:", vr["seq"])
		okSeq := rt.Op == "binop" && rt.Name == "+" && rt.Args[0].Op == "param" && strings.HasPrefix(rt.Args[0].Name, seqParam) && rt.Args[1].Op == "const" && rt.Args[1].Name == "1"
		r.Check(okSeq, kp("ORIGIN", fmt.Sprintf("%s#return%d#newSeq=seq+1", vn, i)), "the new sequence is exactly the verified sequence + 1 (same parameter that went into the sign bytes)", site,
			"seq+1", "new sequence = "+rt.String())
	}
	r.Floor("true-returns-of-"+vn, nTrue, 1)
	if signBytes == nil || signBytes.Blocks == nil {
		r.Undecided(kp("ORIGIN", vn+"#sign-bytes-helper"), "sign bytes are built by a module helper", p.FnPos(v), "helper not resolved")
		return
	}
	bo := NewOrigin(p, signBytes)
	for i, ret := range returnsOf(signBytes) {
		t := bo.Of(ret.Results[0])
		c, k := t.Res()
		ok := false
		why := t.String()
		if t.Op == "res" && k == 0 && c.Op == "call" && strings.HasSuffix(c.Name, "Marshal") && len(c.Args) == 1 {
			l := c.Args[0]
			if l.Op == "addr" {
				l = l.Args[0]
			}
			d, s := l.Field("Data"), l.Field("Sequence")
			if l.Op == "lit" && d != nil && s != nil {
				dc, dk := d.Res()
				ok = d.Op == "res" && dk == 0 && dc.Op == "call" && strings.HasSuffix(dc.Name, "Marshal") && len(dc.Args) == 1 && dc.Args[0].Op == "param" &&
					strings.HasPrefix(dc.Args[0].Name, "0:") && s.Op == "param" && strings.HasPrefix(s.Name, "1:")
			}
		}
		r.Check(ok, kp("ORIGIN", fmt.Sprintf("%s#return%d", FuncName(signBytes), i)),
			"the signed bytes are Marshal(DataWithSeq{Data: Marshal(data), Sequence: seq}) with both fields set from the parameters (the sequence is part of what is signed)", p.Pos(ret.Pos()),
			"Marshal({Data: Marshal($0), Sequence: $1})", "signed bytes = "+why)
	}
}



// didCalledOnlyFromHandlers: every caller of fn is a DID message handler, or another transparent helper of which the same holds.
func didCalledOnlyFromHandlers(p *Prog, m *didModel, fn *ssa.Function, depth int) bool {
	callers, _ := p.CallersOf(fn)
	if len(callers) == 0 || depth > 2 {
		return false
	}
	for _, c := range callers {
		if m.msgOf[c] != nil {
			continue
		}
		if p.transparent(c) && didCalledOnlyFromHandlers(p, m, c, depth+1) {
			continue
		}
		return false
	}
	return true
}
