package main

import (
	"fmt"
	"go/token"
	"go/types"
	"strings"

	"golang.org/x/tools/go/ssa"
)

// VALIDATEGENESIS — a module's ValidateGenesis hands back the verdict of the genesis state's own validator: every return is
//
//	(1) the validator's error itself (possibly merged by a phi with nil or with other errors), or
//	(2) a success (nil) on a path on which the validator's error is known to be nil, or
//	(3) something that is an error for certain (a wrap made with %w / errors.Wrap of a live error, a sentinel).
//
// A return that is none of these (an outer `err` left over from an earlier statement while the validator's error was assigned to a
// shadowing variable) reports success for a genesis file the validator rejected.
func checkValidateGenesisPropagates(p *Prog, r *Report, kp func(string, string) string, mods []string) {
	rule := "a module's ValidateGenesis returns what the genesis state's validator returned: a rejected genesis file is never reported as valid"
	n := 0
	for _, mod := range mods {
		amb := p.Named(Rel(mod), "AppModuleBasic")
		if amb == nil {
			r.Fail(kp("VALIDATEGENESIS", mod+"#anchor"), "anchor", mod, "AppModuleBasic not found")
			continue
		}
		vg := p.MethodOf(amb, "ValidateGenesis")
		if vg == nil || vg.Blocks == nil {
			r.Fail(kp("VALIDATEGENESIS", mod+"#anchor"), "anchor", mod, "ValidateGenesis not found")
			continue
		}
		key := kp("VALIDATEGENESIS", mod+"#verdict-returned")
		var call *ssa.Call
		for _, cs := range callSites(vg) {
			if cs.Callee == nil || cs.Callee.Signature.Recv() == nil {
				continue
			}
			rt := cs.Callee.Signature.Recv().Type()
			if pt, ok := rt.(*types.Pointer); ok {
				rt = pt.Elem()
			}
			nn, ok := rt.(*types.Named)
			if !ok || nn.Obj().Name() != "GenesisState" || nn.Obj().Pkg() == nil || nn.Obj().Pkg().Path() != Rel(mod+"/types") {
				continue
			}
			if !strings.HasPrefix(cs.Callee.Name(), "Validate") {
				continue
			}
			if c, isCall := cs.Instr.(*ssa.Call); isCall {
				call = c
			}
		}
		if call == nil {
			r.Fail(key, rule, p.FnPos(vg), "ValidateGenesis does not call the genesis state's validator")
			continue
		}
		n++
		o := NewOrigin(p, vg)
		fa := NewFacts(p, vg, o)
		isNilAtom := cmpAtom("==", o.Of(call), o.Of(ssa.NewConst(nil, call.Type())))
		var derives func(v ssa.Value, d int) bool
		derives = func(v ssa.Value, d int) bool {
			v = unspill(v)
			if v == ssa.Value(call) {
				return true
			}
			if ph, ok := v.(*ssa.Phi); ok && d < 3 {
				hit := false
				for _, e := range ph.Edges {
					if derives(e, d+1) {
						hit = true
					} else if !isNilConst(unspill(e)) && !definitelyError(e, 0) {
						return false
					}
				}
				return hit
			}
			return false
		}
		bad := ""
		for _, ret := range returnsOf(vg) {
			if !dominatesOrEquals(call.Block(), ret.Block()) {
				continue // returns before the validator runs (decoding failed)
			}
			rv := ret.Results[len(ret.Results)-1]
			switch {
			case derives(rv, 0):
			case definitelyError(rv, 0) && !isNilConst(unspill(rv)):
			case isNilAtom != nil && Entails(fa.At(ret.Block()), isNilAtom):
			default:
				bad = p.Pos(ret.Pos())
			}
		}
		r.Check(bad == "", key, rule, p.FnPos(vg), "every return after the validator ran is its verdict, a certain error, or a success under verdict == nil",
			fmt.Sprintf("the return at %s is reached after %s ran but hands back neither its error, nor a certain error, nor nil under 'the validator accepted': a rejected genesis state is reported as valid", bad, FuncName(call.Call.StaticCallee())))
	}
	r.Floor("validate-genesis-verdicts", n, len(mods))
}

func dominatesOrEquals(a, b *ssa.BasicBlock) bool { return a == b || a.Dominates(b) }

// PARTIALUPDATE — `if src.F != "" { dst.F = src.F }`: in a partial update the field that is tested, the field that is read and
// the field that is written are the same one. A store `dst.D = src.S` whose block is reached only under a non-emptiness test of
// some field of the same src must be under the test of src.S itself, and (same struct type) D must be S: otherwise a required
// field can be overwritten with an empty value, or one field's value lands in another.
type partialUpdate struct {
	Store            *ssa.Store
	Dst, Src, SrcObj string
	Tested           []string
	OK, TestedOK     bool
}

func partialUpdatesIn(p *Prog, fn *ssa.Function) []partialUpdate {
	var out []partialUpdate
	var o *Origin
	var fa *Facts
	for _, b := range fn.Blocks {
		for _, in := range b.Instrs {
			st, ok := in.(*ssa.Store)
			if !ok {
				continue
			}
			dfa, ok := st.Addr.(*ssa.FieldAddr)
			if !ok {
				continue
			}
			bt, isB := st.Val.Type().Underlying().(*types.Basic)
			if !isB || bt.Info()&types.IsString == 0 {
				continue
			}
			// the value: a load of a field of another struct
			ld, ok := st.Val.(*ssa.UnOp)
			if !ok || ld.Op != token.MUL {
				continue
			}
			sfa, ok := ld.X.(*ssa.FieldAddr)
			if !ok {
				continue
			}
			if o == nil {
				o = NewOrigin(p, fn)
				fa = NewFacts(p, fn, o)
			}
			srcBase := o.Of(sfa.X)
			srcField := fieldName(sfa.X.Type(), sfa.Field)
			dstField := fieldName(dfa.X.Type(), dfa.Field)
			// non-emptiness tests of fields of the same source on the path
			F := fa.At(b)
			var tested []string
			for _, a := range F.Atoms() {
				t := a.Term
				if t == nil || t.Op != "eq" || len(t.Args) != 2 {
					continue
				}
				x, y := t.Args[0], t.Args[1]
				if x.Op == "const" {
					x, y = y, x
				}
				if y.Op != "const" || y.Name != `""` || x.Op != "field" || len(x.Args) != 1 || !x.Args[0].Eq(srcBase) {
					continue
				}
				if Entails(F, fNot(a)) {
					tested = append(tested, x.Name)
				}
			}
			if len(tested) == 0 {
				continue
			}
			okTest := false
			for _, t := range tested {
				if t == srcField {
					okTest = true
				}
			}
			same := types.Identical(derefType(sfa.X.Type()), derefType(dfa.X.Type()))
			out = append(out, partialUpdate{Store: st, Dst: dstField, Src: srcField, SrcObj: clip(srcBase.String(), 40), Tested: tested,
				TestedOK: okTest, OK: okTest && (!same || srcField == dstField)})
		}
	}
	return out
}

const partialUpdateFixture = `package pufx

type D struct{ Name, Symbol string }

func WrongTest(d, m *D) {
	if m.Name != "" {
		d.Symbol = m.Symbol
	}
}

func WrongField(d, m *D) {
	if m.Name != "" {
		d.Symbol = m.Name
	}
}

func Good(d, m *D) {
	if m.Name != "" {
		d.Name = m.Name
	}
	if m.Symbol != "" {
		d.Symbol = m.Symbol
	}
}
`

func checkPartialUpdates(p *Prog, r *Report, kp func(string, string) string, scopeName string, scope func(fn *ssa.Function) bool) {
	rule := "partial update: a field is overwritten only under the non-emptiness test of the very field that is copied, into the field of the same name"
	ckey := kp("PARTIALUPDATE", "control#fixture")
	if fx, err := buildFixture(p, "pufx", partialUpdateFixture); err != nil {
		r.Undecided(ckey, "positive control for the partial-update rule", "checker/errprop.go", "fixture does not build: "+err.Error())
	} else {
		cnt := func(name string) string {
			bad := 0
			us := partialUpdatesIn(p, fx[name])
			for _, u := range us {
				if !u.OK {
					bad++
				}
			}
			return fmt.Sprintf("%d:%d", len(us), bad)
		}
		got := cnt("WrongTest") + "/" + cnt("WrongField") + "/" + cnt("Good")
		r.Check(got == "1:1/1:1/2:0", ckey, "positive control: a copy under the test of another field and a copy into another field are reported, the matching form is not", "checker/errprop.go (in-memory fixture, not executed)",
			"fixture stores:reported "+got, "fixture stores:reported "+got+", expected 1:1/1:1/2:0: the matcher is broken")
	}
	n, nBad := 0, 0
	for _, fn := range p.ModFuncs {
		if fn.Blocks == nil || p.IsGenerated(fn) || !scope(fn) {
			continue
		}
		for _, u := range partialUpdatesIn(p, fn) {
			n++
			key := kp("PARTIALUPDATE", FuncName(fn)+"#"+u.Dst)
			if !u.OK {
				nBad++
			}
			r.Check(u.OK, key, rule, p.Pos(u.Store.Pos()),
				fmt.Sprintf("%s ← %s under %s != \"\"", u.Dst, u.Src, u.Src),
				fmt.Sprintf("%s is overwritten with %s.%s on a path that tests %v for non-emptiness: %s", u.Dst, u.SrcObj, u.Src, u.Tested,
					map[bool]string{true: "the copied field itself is not tested, so a required field can be set to the empty string (a state the module's own genesis validation rejects)", false: "the value of one field lands in another"}[!u.TestedOK]))
		}
	}
	r.Count("partial-update-stores("+scopeName+")", n)
}

// ERRDROP — `if err := f(); err != nil { log(err) }` followed by `return outerErr` / `return nil`: the failure of f is looked at
// and then lost. For a function that returns an error, every path that starts on the `e != nil` side of a test of a call's
// error e and reaches a return without going round a loop or through a further tested fallible step (a fallback) must return something that can be that failure: e itself (possibly
// through a phi or as an argument of a wrapping call), or a certain error. Flagged: a return of another error value that the
// path condition at the return pins to nil (a stale outer variable — the shadowing slip). A literal `return nil` is a decision
// the author wrote down (log and carry on) and is not flagged.
type droppedError struct {
	Test *ssa.If
	Ret  *ssa.Return
	Why  string
}

func droppedErrorsIn(p *Prog, fn *ssa.Function) (nTests int, out []droppedError) {
	res := fn.Signature.Results()
	if fn.Blocks == nil || res.Len() == 0 || !isErrorType(res.At(res.Len()-1).Type()) {
		return
	}
	var o *Origin
	var fa *Facts
	for _, b := range fn.Blocks {
		if len(b.Instrs) == 0 {
			continue
		}
		iff, ok := b.Instrs[len(b.Instrs)-1].(*ssa.If)
		if !ok {
			continue
		}
		bo, ok := iff.Cond.(*ssa.BinOp)
		if !ok || (bo.Op != token.NEQ && bo.Op != token.EQL) {
			continue
		}
		e, nl := bo.X, bo.Y
		if isNilConst(e) {
			e, nl = nl, e
		}
		if !isNilConst(nl) || !isErrorType(e.Type()) {
			continue
		}
		// e is the error result of a call
		src := unspill(e)
		isCallErr := false
		switch x := src.(type) {
		case *ssa.Call:
			isCallErr = true
		case *ssa.Extract:
			_, isCallErr = x.Tuple.(*ssa.Call)
		}
		if !isCallErr {
			continue
		}
		nTests++
		then := b.Succs[0]
		if bo.Op == token.EQL {
			then = b.Succs[1]
		}
		carries := func(v ssa.Value) bool {
			seen := map[ssa.Value]bool{}
			var walk func(v ssa.Value, d int) bool
			walk = func(v ssa.Value, d int) bool {
				v = unspill(v)
				if v == src || v == e {
					return true
				}
				if seen[v] || d > 4 {
					return false
				}
				seen[v] = true
				switch x := v.(type) {
				case *ssa.Phi:
					for _, ed := range x.Edges {
						if walk(ed, d+1) {
							return true
						}
					}
				case *ssa.Call:
					for _, a := range x.Call.Args {
						if walk(a, d+1) {
							return true
						}
					}
				case *ssa.MakeInterface:
					return walk(x.X, d+1)
				case *ssa.ChangeInterface:
					return walk(x.X, d+1)
				case *ssa.Slice:
					return walk(x.X, d+1)
				case *ssa.Alloc:
					// a variadic argument array holding the error
					if refs := x.Referrers(); refs != nil {
						for _, rf := range *refs {
							if ia, ok := rf.(*ssa.IndexAddr); ok && ia.Referrers() != nil {
								for _, ir := range *ia.Referrers() {
									if st, ok := ir.(*ssa.Store); ok && walk(st.Val, d+1) {
										return true
									}
								}
							}
						}
					}
				}
				return false
			}
			return walk(v, 0)
		}
		// paths from the failing side to returns, never through a back edge
		visited := map[*ssa.BasicBlock]bool{}
		var dfs func(cur *ssa.BasicBlock)
		dfs = func(cur *ssa.BasicBlock) {
			if visited[cur] {
				return
			}
			visited[cur] = true
			if len(cur.Instrs) == 0 {
				return
			}
			switch x := cur.Instrs[len(cur.Instrs)-1].(type) {
			case *ssa.Return:
				rv := x.Results[len(x.Results)-1]
				u := unspill(rv)
				switch {
				case carries(rv), definitelyError(rv, 0) && !isNilConst(u):
				case isNilConst(u):
					// a literal `return nil` after looking at the failure is a decision the author wrote down ("log and carry on")
				default:
					if o == nil {
						o = NewOrigin(p, fn)
						fa = NewFacts(p, fn, o)
					}
					at := cmpAtom("==", o.Of(u), o.Of(ssa.NewConst(nil, u.Type())))
					if at != nil && Entails(fa.At(cur), at) {
						out = append(out, droppedError{iff, x, "returns another error variable that is nil on every path to this return"})
					}
				}
				return
			case *ssa.Panic:
				return
			case *ssa.If:
				// a further fallible step that is itself tested: the first failure started a fallback, it was not dropped
				if x != iff {
					if bo2, ok := x.Cond.(*ssa.BinOp); ok && (bo2.Op == token.NEQ || bo2.Op == token.EQL) &&
						(isNilConst(bo2.X) && isErrorType(bo2.Y.Type()) || isNilConst(bo2.Y) && isErrorType(bo2.X.Type())) {
						return
					}
				}
			}
			for _, s := range cur.Succs {
				if s.Dominates(cur) { // back edge
					continue
				}
				dfs(s)
			}
		}
		dfs(then)
	}
	return
}

const errDropFixture = `package edfx

import "strconv"

func Lost(a, b string) (int, error) {
	n, err := strconv.Atoi(a)
	if err != nil {
		return 0, err
	}
	if _, err := strconv.Atoi(b); err != nil {
		println("bad b", err.Error())
	}
	return n, err
}

func Swallowed(a string) error {
	if _, err := strconv.Atoi(a); err != nil {
		println(err.Error())
	}
	return nil
}

func Fine(a, b string) (int, error) {
	n, err := strconv.Atoi(a)
	if err != nil {
		return 0, err
	}
	m, err := strconv.Atoi(b)
	if err != nil {
		return 0, &strconv.NumError{Func: "Fine", Num: b, Err: err}
	}
	return n + m, nil
}
`

func checkNoDroppedErrors(p *Prog, r *Report, clause, scopeName string, scope func(fn *ssa.Function) bool) {
	rule := "a failure that is tested is not lost: on the err != nil side of a test, a function that returns an error never returns a stale error variable that is nil there (the shadowing slip)"
	ckey := "ERRDROP:" + clause + ":control#fixture"
	if fx, err := buildFixture(p, "edfx", errDropFixture); err != nil {
		r.Undecided(ckey, "positive control for the dropped-error rule", "checker/errprop.go", "fixture does not build: "+err.Error())
	} else {
		cnt := func(n string) string { t, l := droppedErrorsIn(p, fx[n]); return fmt.Sprintf("%d:%d", t, len(l)) }
		got := cnt("Lost") + "/" + cnt("Swallowed") + "/" + cnt("Fine")
		r.Check(got == "2:1/1:0/2:0", ckey, "positive control: an error that is logged and then replaced by a stale variable that is nil there is reported; a literal `return nil`, returned and wrapped errors are not", "checker/errprop.go (in-memory fixture, not executed)",
			"fixture tests:dropped "+got, "fixture tests:dropped "+got+", expected 2:1/1:0/2:0: the matcher is broken")
	}
	nT, nBad, nFn := 0, 0, 0
	for _, fn := range p.ModFuncs {
		if fn.Blocks == nil || p.IsGenerated(fn) || InPkgs(fn, "types/testsuite") || !scope(fn) {
			continue
		}
		nFn++
		t, bad := droppedErrorsIn(p, fn)
		nT += t
		for _, b := range bad {
			nBad++
			r.Fail(fmt.Sprintf("ERRDROP:%s:%s#%d", clause, FuncName(fn), nBad), rule, p.Pos(b.Ret.Pos()),
				fmt.Sprintf("%s tests an error for failure and on that side %s: the failure is reported as success", FuncName(fn), b.Why))
		}
	}
	if nBad == 0 {
		r.OK("ERRDROP:"+clause+":"+scopeName+"#none", rule, scopeName, fmt.Sprintf("%d functions, %d error tests, no failure is dropped", nFn, nT))
	}
	r.Count("error-tests("+scopeName+")", nT)
}

// lenUpperBound: the largest length F admits for the value recognised by isX (-1: F puts no upper bound on it).
func lenUpperBound(F *Formula, isX func(t *Term) bool) int64 {
	if F == nil {
		return -1
	}
	isLen := func(t *Term) bool { return t.IsCall("builtin:len") && len(t.Args) == 1 && isX(t.Args[0]) }
	best := int64(-1)
	upd := func(v int64) {
		if best < 0 || v < best {
			best = v
		}
	}
	for _, a := range F.Atoms() {
		t := a.Term
		if t == nil || len(t.Args) != 2 {
			continue
		}
		var c int64
		switch {
		case t.Op == "lt" && t.Args[0].Op == "const" && isLen(t.Args[1]): // c < len ; negated: len <= c
			if _, err := fmt.Sscan(t.Args[0].Name, &c); err == nil && Entails(F, fNot(a)) {
				upd(c)
			}
		case t.Op == "lt" && isLen(t.Args[0]) && t.Args[1].Op == "const": // len < c
			if _, err := fmt.Sscan(t.Args[1].Name, &c); err == nil && Entails(F, a) {
				upd(c - 1)
			}
		case t.Op == "eq" && t.Args[0].Op == "const" && isLen(t.Args[1]):
			if _, err := fmt.Sscan(t.Args[0].Name, &c); err == nil && Entails(F, a) {
				upd(c)
			}
		case t.Op == "eq" && t.Args[1].Op == "const" && isLen(t.Args[0]):
			if _, err := fmt.Sscan(t.Args[1].Name, &c); err == nil && Entails(F, a) {
				upd(c)
			}
		}
	}
	return best
}

// lenBoundAt: the upper bound on len(v) that holds at instruction `at`: from length tests on the path, and from error-returning
// helpers of the module that were handed v and whose success the path requires (the helper's accept condition bounds its
// parameter). -1 when there is none.
func lenBoundAt(p *Prog, fa *Facts, at ssa.Instruction, v *Term) int64 {
	F := fa.AtInstrX(at)
	best := lenUpperBound(F, func(t *Term) bool { return t.Eq(v) })
	for _, a := range F.Atoms() {
		t := a.Term
		if t == nil || t.Op != "eq" || len(t.Args) != 2 {
			continue
		}
		x, y := t.Args[0], t.Args[1]
		if x.Op == "const" {
			x, y = y, x
		}
		if y.Op != "const" || y.Name != "nil" || !Entails(F, a) {
			continue
		}
		ct := x
		if ct.Op == "res" && len(ct.Args) == 1 {
			ct = ct.Args[0]
		}
		c, isCall := ct.Val.(*ssa.Call)
		if ct.Op != "call" || !isCall {
			continue
		}
		g := c.Call.StaticCallee()
		if g == nil || !InModule(g) || g.Blocks == nil || len(g.Blocks) > 30 {
			continue
		}
		off := len(ct.Args) - len(c.Call.Args)
		for i, at2 := range ct.Args {
			if i-off < 0 || !at2.Eq(v) {
				continue
			}
			pj := i - off
			if g.Signature.Recv() != nil {
				pj++
			}
			if pj >= len(g.Params) {
				continue
			}
			A := acceptFormula(p, g)
			if A == nil {
				continue
			}
			ub := lenUpperBound(A, func(t *Term) bool { return t.Op == "param" && strings.HasPrefix(t.Name, fmt.Sprint(pj)+":") })
			if ub >= 0 && (best < 0 || ub < best) {
				best = ub
			}
		}
	}
	return best
}

// msgFieldMax: the byte-length limit ValidateBasic of message type m puts on its string field `field` (ok false: none).
func msgFieldMax(p *Prog, m *types.Named, field string) (int, bool) {
	vb := p.MethodOf(m, "ValidateBasic")
	if vb == nil {
		return 0, false
	}
	A := acceptFormula(p, vb)
	if A == nil {
		return 0, false
	}
	for _, a := range A.Atoms() {
		cls, pos, ok := classifyMsgAtom(p, a.Term)
		if !ok || cls.Kind != "lang" || cls.Field != field {
			continue
		}
		lit := a
		if !pos {
			lit = fNot(a)
		}
		if Entails(A, lit) && cls.Spec.Hi >= 0 {
			return cls.Spec.Hi, true
		}
	}
	return 0, false
}

// checkStoredTypeValidationNotStricter (C08): the genesis validator of a stored AOL type accepts, for each of its string/bytes
// fields, every value the message validators accept for the field of the same name — otherwise a value a transaction stored makes
// the module reject its own export. Languages (length interval × pattern) are compared by the product automaton of C16.
func checkStoredTypeValidationNotStricter(p *Prog, r *Report, kp func(string, string) string, typesPkg string, stored []string) {
	rule := "genesis validation of a stored entry accepts every field value the message validators accept (a reachable state passes the module's own genesis validation)"
	// message side: field -> specs
	type fs struct {
		msg  string
		spec LangSpec
	}
	msgSpecs := map[string][]fs{}
	for _, m := range p.Msgs() {
		if m.Obj().Pkg() == nil || m.Obj().Pkg().Path() != Rel(typesPkg) {
			continue
		}
		vb := p.MethodOf(m, "ValidateBasic")
		if vb == nil {
			continue
		}
		A := acceptFormula(p, vb)
		if A == nil {
			continue
		}
		for _, a := range A.Atoms() {
			cls, pos, ok := classifyMsgAtom(p, a.Term)
			if !ok || cls.Kind != "lang" {
				continue
			}
			lit := a
			if !pos {
				lit = fNot(a)
			}
			if Entails(A, lit) {
				msgSpecs[cls.Field] = append(msgSpecs[cls.Field], fs{m.Obj().Name(), cls.Spec})
			}
		}
	}
	n := 0
	for _, tn := range stored {
		T := p.Named(Rel(typesPkg), tn)
		if T == nil {
			continue
		}
		val := p.MethodOf(T, "Validate")
		if val == nil || val.Blocks == nil {
			continue
		}
		A := acceptFormula(p, val)
		if A == nil {
			r.OKTrivial(kp("VALIDATE", tn+".Validate#not-stricter"), rule, p.FnPos(val), "accept condition not reconstructed: not decided")
			continue
		}
		for _, a := range A.Atoms() {
			cls, pos, ok := classifyMsgAtom(p, a.Term)
			if !ok || cls.Kind != "lang" {
				continue
			}
			lit := a
			if !pos {
				lit = fNot(a)
			}
			if !Entails(A, lit) {
				continue
			}
			for _, ms := range msgSpecs[cls.Field] {
				n++
				sub, w, err := LangSubset(ms.spec, cls.Spec)
				key := kp("VALIDATE", tn+"."+cls.Field+"⊇"+ms.msg+"."+cls.Field)
				if err != nil {
					r.OKTrivial(key, rule, p.FnPos(val), "languages not comparable: "+err.Error())
					continue
				}
				r.Check(sub, key, rule, p.FnPos(val), fmt.Sprintf("%v ⊆ %v", ms.spec, cls.Spec),
					fmt.Sprintf("%s.ValidateBasic accepts %s = %q, which %s.Validate rejects (%v vs %v): an entry stored by an accepted transaction makes the exported genesis fail the module's own validation", ms.msg, cls.Field, w, tn, ms.spec, cls.Spec))
			}
		}
	}
	r.Count("stored-type-vs-message-field-languages("+typesPkg+")", n)
}

// LOSTWRITE — a method with a VALUE receiver that assigns to a field of its receiver and returns nothing changes a copy: the
// caller's value stays as it was (`func (m Msg) SetFeePayer(a string) { m.FeePayer = a }`). Reported for the hand-written methods
// of message and stored types: a constructor or handler that relies on such a setter builds or stores something else than it says.
func checkNoLostReceiverWrites(p *Prog, r *Report, clause, scopeName string, scope func(fn *ssa.Function) bool) {
	rule := "a method that assigns to a field of its receiver has a pointer receiver (or returns the modified value): an assignment to a copy is lost"
	n, nBad := 0, 0
	for _, fn := range p.ModFuncs {
		if fn.Blocks == nil || p.IsGenerated(fn) || !scope(fn) || fn.Signature.Recv() == nil || fn.Parent() != nil {
			continue
		}
		if _, isPtr := fn.Signature.Recv().Type().(*types.Pointer); isPtr {
			continue
		}
		if _, isStruct := fn.Signature.Recv().Type().Underlying().(*types.Struct); !isStruct {
			continue
		}
		n++
		if len(fn.Params) == 0 {
			continue
		}
		recv := fn.Params[0]
		// the receiver spilled into a local: stores into its fields
		var spill *ssa.Alloc
		if refs := recv.Referrers(); refs != nil {
			for _, rf := range *refs {
				if st, ok := rf.(*ssa.Store); ok && st.Val == ssa.Value(recv) {
					spill, _ = st.Addr.(*ssa.Alloc)
				}
			}
		}
		if spill == nil || spill.Referrers() == nil {
			continue
		}
		var lost ssa.Instruction
		used := false
		for _, rf := range *spill.Referrers() {
			switch x := rf.(type) {
			case *ssa.FieldAddr:
				if x.Referrers() == nil {
					continue
				}
				for _, r2 := range *x.Referrers() {
					if st, ok := r2.(*ssa.Store); ok && st.Addr == ssa.Value(x) {
						lost = st
					}
				}
			case *ssa.UnOp:
				// the whole (modified) copy is read: returned or handed on
				if x.Referrers() != nil {
					for _, r2 := range *x.Referrers() {
						switch r2.(type) {
						case *ssa.Return, ssa.CallInstruction, *ssa.Store, *ssa.MakeInterface:
							used = true
						}
					}
				}
			case ssa.CallInstruction, *ssa.MakeInterface:
				used = true // the address of the copy escapes
			}
		}
		if lost != nil && !used && fn.Signature.Results().Len() == 0 {
			nBad++
			r.Fail(fmt.Sprintf("LOSTWRITE:%s:%s", clause, FuncName(fn)), rule, p.Pos(lost.Pos()),
				fmt.Sprintf("%s has a value receiver, assigns to a field of it and returns nothing: the assignment changes a copy and is lost — whoever calls it (a constructor, a handler) keeps the old value", FuncName(fn)))
		}
	}
	if nBad == 0 {
		r.OK("LOSTWRITE:"+clause+":"+scopeName+"#none", rule, scopeName, fmt.Sprintf("%d value-receiver methods, none assigns to a field of its receiver without handing the copy on", n))
	}
}
