// pverif — repository-specific static checker for medibloc/panacea-core (see /verif/DESIGN.md).
//
// Usage: pverif check <C01..C20|all> [--tier quick|thorough] [--repo DIR] [--verif DIR]
//
// Every invocation loads and type-checks the current working tree of the repository, builds SSA for
// the whole import closure, evaluates the rule instances of the property, prints one line per
// failing obligation, writes <verif>/evidence/<id>.json and exits 0 (held) or 1 (violation).
// Nothing from the repository is executed.
package main

import (
	"fmt"
	"os"
	"runtime/debug"
	"sort"
	"strconv"
	"strings"
	"time"
)

type checkFn func(p *Prog, r *Report)

var registry = map[string]checkFn{}

func register(id string, fn checkFn) { registry[id] = fn }

func main() {
	if len(os.Args) < 3 || (os.Args[1] != "check" && os.Args[1] != "explain") {
		fmt.Fprintln(os.Stderr, "usage: pverif check <id|all> [--tier quick|thorough] [--repo DIR] [--verif DIR]")
		os.Exit(2)
	}
	if os.Args[1] == "explain" {
		explain(os.Args[2:])
		return
	}
	id := os.Args[2]
	tier := os.Getenv("VERIF_TIER")
	if tier == "" {
		tier = "quick"
	}
	repo, verif := "/repo", "/verif"
	for i := 3; i < len(os.Args); i++ {
		switch os.Args[i] {
		case "--tier":
			i++
			tier = os.Args[i]
		case "--repo":
			i++
			repo = os.Args[i]
		case "--verif":
			i++
			verif = os.Args[i]
		}
	}
	if tier != "quick" && tier != "thorough" {
		tier = "quick"
	}
	seed, _ := strconv.ParseInt(os.Getenv("VERIF_SEED"), 10, 64)
	debug.SetGCPercent(400)

	var ids []string
	if id == "all" {
		for k := range registry {
			ids = append(ids, k)
		}
		sort.Strings(ids)
	} else {
		for _, k := range strings.Split(id, ",") {
			if registry[k] == nil {
				fmt.Fprintf(os.Stderr, "unknown property %q\n", k)
				os.Exit(2)
			}
			ids = append(ids, k)
		}
	}

	t0 := time.Now()
	p, err := Load(repo)
	loadSeconds = time.Since(t0).Seconds()
	if err != nil {
		// fail closed: a tree that cannot be analysed is not a pass
		for _, k := range ids {
			r := NewReport(k, tier, seed, verif)
			r.Explain = "load failure"
			r.Fail("LOAD:"+k, "the repository must load and type-check completely", repo, err.Error())
			r.Finish()
		}
		os.Exit(1)
	}
	rc := 0
	for _, k := range ids {
		r := NewReport(k, tier, seed, verif)
		r.Count("module_packages", countModPkgs(p))
		r.Count("module_functions", len(p.ModFuncs))
		r.Count("packages_in_closure", len(p.All))
		func() {
			defer func() {
				if e := recover(); e != nil {
					r.Fail("PANIC:"+k, "analysis must complete (fail closed)", "-",
						fmt.Sprintf("checker panicked: %v\n%s", e, firstLines(string(debug.Stack()), 25)))
				}
			}()
			registry[k](p, r)
		}()
		if r.Finish() != 0 {
			rc = 1
		}
	}
	os.Exit(rc)
}

func countModPkgs(p *Prog) int {
	n := 0
	for _, r := range p.Roots {
		if strings.HasPrefix(r.PkgPath, ModPath) {
			n++
		}
	}
	return n
}

func firstLines(s string, n int) string {
	ls := strings.Split(s, "\n")
	if len(ls) > n {
		ls = ls[:n]
	}
	return strings.Join(ls, "\n")
}

// explain re-prints the failing obligations recorded in an evidence file.
func explain(args []string) {
	path := ""
	for i := 0; i < len(args); i++ {
		if args[i] == "--from" && i+1 < len(args) {
			path = args[i+1]
		}
	}
	if path == "" && len(args) > 0 {
		path = "/verif/evidence/" + args[0] + ".json"
	}
	bz, err := os.ReadFile(path)
	if err != nil {
		fmt.Fprintln(os.Stderr, err)
		os.Exit(2)
	}
	os.Stdout.Write(bz)
	fmt.Println()
}
