package main

import (
	"go/ast"
	"go/constant"
	"go/token"
	"strings"
)

// globalByteSliceLit evaluates a package-level `var X = []byte{c0, c1, ...}` (or []byte("...")) from the syntax tree.
// It also reports how many assignments to X exist in the package besides the declaration (must be 0 for a constant table).
func globalByteSliceLit(p *Prog, pkgPath, name string) (val []byte, ok bool, reassigned int, pos token.Pos) {
	pk := p.All[pkgPath]
	if pk == nil {
		return nil, false, 0, token.NoPos
	}
	obj := pk.Types.Scope().Lookup(name)
	if obj == nil {
		return nil, false, 0, token.NoPos
	}
	for _, f := range pk.Syntax {
		ast.Inspect(f, func(nd ast.Node) bool {
			switch x := nd.(type) {
			case *ast.ValueSpec:
				for i, id := range x.Names {
					if pk.TypesInfo.Defs[id] != obj || i >= len(x.Values) {
						continue
					}
					pos = id.Pos()
					switch v := x.Values[i].(type) {
					case *ast.CompositeLit:
						var bs []byte
						good := true
						for _, e := range v.Elts {
							tv, has := pk.TypesInfo.Types[e]
							if !has || tv.Value == nil {
								good = false
								break
							}
							n, exact := constant.Int64Val(constant.ToInt(tv.Value))
							if !exact || n < 0 || n > 255 {
								good = false
								break
							}
							bs = append(bs, byte(n))
						}
						if good {
							val, ok = bs, true
						}
					case *ast.CallExpr:
						if len(v.Args) == 1 {
							if tv, has := pk.TypesInfo.Types[v.Args[0]]; has && tv.Value != nil && tv.Value.Kind() == constant.String {
								val, ok = []byte(constant.StringVal(tv.Value)), true
							}
						}
					}
				}
			case *ast.AssignStmt:
				for _, l := range x.Lhs {
					if id, isId := l.(*ast.Ident); isId && pk.TypesInfo.Uses[id] == obj {
						reassigned++
					}
					// element assignment X[i] = ...
					if ix, isIx := l.(*ast.IndexExpr); isIx {
						if id, isId := ix.X.(*ast.Ident); isId && pk.TypesInfo.Uses[id] == obj {
							reassigned++
						}
					}
				}
			}
			return true
		})
	}
	return
}

func splitGlobal(short string) (pkgPath, name string) {
	i := strings.LastIndex(short, ".")
	if i < 0 {
		return "", short
	}
	pp := short[:i]
	if strings.HasPrefix(pp, "sdk/") {
		pp = SDK + "/" + strings.TrimPrefix(pp, "sdk/")
	} else if !strings.Contains(pp, ".") {
		pp = Rel(pp)
	}
	return pp, short[i+1:]
}

// globalStringListLit evaluates a package-level `var X = []string{c0, c1, ...}` (constants only) from the syntax tree; ok is false
// when the variable is not such a literal or is assigned anywhere else in the package.
func globalStringListLit(p *Prog, pkgPath, name string) (vals []string, ok bool) {
	pk := p.All[pkgPath]
	if pk == nil {
		return nil, false
	}
	obj := pk.Types.Scope().Lookup(name)
	if obj == nil {
		return nil, false
	}
	found, reassigned := false, false
	for _, f := range pk.Syntax {
		ast.Inspect(f, func(nd ast.Node) bool {
			switch x := nd.(type) {
			case *ast.ValueSpec:
				for i, id := range x.Names {
					if pk.TypesInfo.Defs[id] != obj || i >= len(x.Values) {
						continue
					}
					cl, isCL := x.Values[i].(*ast.CompositeLit)
					if !isCL {
						continue
					}
					good := true
					var out []string
					for _, e := range cl.Elts {
						tv, has := pk.TypesInfo.Types[e]
						if !has || tv.Value == nil || tv.Value.Kind() != constant.String {
							good = false
							break
						}
						out = append(out, constant.StringVal(tv.Value))
					}
					if good {
						vals, found = out, true
					}
				}
			case *ast.AssignStmt:
				for _, l := range x.Lhs {
					if id, isID := l.(*ast.Ident); isID && pk.TypesInfo.Uses[id] == obj {
						reassigned = true
					}
					if ix, isIx := l.(*ast.IndexExpr); isIx {
						if id, isID := ix.X.(*ast.Ident); isID && pk.TypesInfo.Uses[id] == obj {
							reassigned = true
						}
					}
				}
			}
			return true
		})
	}
	return vals, found && !reassigned
}
