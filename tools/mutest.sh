#!/bin/bash
# mutest.sh <patch> <ids> — apply a patch to a scratch copy of /repo, check that it still compiles, run the checker on it.
# Prints the VIOLATED/UNDECIDED lines. The scratch copy is removed afterwards.
set -u
export GOFLAGS=-mod=mod GOPROXY=off GOSUMDB=off GOTOOLCHAIN=local; unset GOWORK
patch=$1; ids=${2:-all}; runtests=${3:-}
scratch=$(mktemp -d /tmp/pvm.XXXXXX)
trap 'rm -rf "$scratch"' EXIT
rsync -a --exclude .git --exclude client/docs /repo/ "$scratch/"
( cd "$scratch" && patch -p1 -s --no-backup-if-mismatch < "$patch" ) || { echo "PATCH-FAILED $patch"; exit 3; }
( cd "$scratch" && go build -trimpath ./... 2>&1 | head -5 ) | grep -q . && { echo "NOCOMPILE $patch"; ( cd "$scratch" && go build -trimpath ./... 2>&1 | head -5 ); exit 4; }
if [ -n "$runtests" ]; then
  ( cd "$scratch" && go test -trimpath -vet=off -count=1 ./... 2>&1 | grep -E '^(FAIL|---)' | head -5 )
fi
mkdir -p "$scratch/.verif"; cp /verif/known_findings.json "$scratch/.verif/"
"${PVERIF_BIN:-/verif/bin/pverif}" check "$ids" --repo "$scratch" --verif "$scratch/.verif" > "$scratch/.out" 2>&1; rc=$?
[ $rc -ge 2 ] && { echo "VIOLATED CHECKER-ERROR rc=$rc: $(head -2 "$scratch/.out")"; }
cat "$scratch/.out" | grep -E '^(VIOLATED|UNDECIDED|KNOWN-FINDING|VIOLATION|SUMMARY)' | sed "s#$scratch/##g" | cut -c1-${MUTEST_WIDTH:-420}
exit 0
