#!/usr/bin/env python3
"""Regenerates /verif/MANIFEST.json from the table below (kept valid against /root/.vp/MANIFEST.schema.json)."""
import json, os, sys

ENV = "GOFLAGS=-mod=mod GOPROXY=off GOSUMDB=off GOTOOLCHAIN=local GOWORK=off"

# id -> (technique, level text, level note, design section)
CHECKS = {
 "C01": ("who-may-call + provenance (SSA) + dominance pairing + config evaluation; loop-fresh decode targets (cycle membership of allocations)",
         "All-paths structural necessary conditions for append-only records: only AddRecord/InitGenesis reach a Set under the record prefix, nothing deletes records/topics/owners, offset = TotalRecords of the topic read under the same key, that topic is stored back with TotalRecords+1 on every success path, response reports the same offset, aol store key owned by the aol keeper and untouched by upgrades. Decides the code shape, not runtime behaviour. List accessors decode every entry into a variable that is fresh or reset in each iteration.",
         "Trusts SDK store/prefix/baseapp semantics, protobuf round trip, go/ssa; InitGenesis input is trusted."),
 "C02": ("guard dominance (path conditions over SSA) + provenance + sibling agreement + ante-chain evaluation",
         "Every AOL store mutation is dominated on all paths by the membership/existence guard on the same key datum; the authorising identity is parsed from a message field GetSigners returns on every path; mutators callable only from handlers/InitGenesis; ante chain has ValidateBasic<SetPubKey<SigVerification<IncrementSequence and is installed by New.",
         "Trusts SigVerificationDecorator, authz MsgExec, baseapp message cache (rejected attempts leave no trace)."),
 "C13": ("must-call pairing + guard dominance + provenance of listing prefixes; loop-fresh decode targets",
         "Counter updates are paired with the entry write on every success path, read and written under the same key, change one counter by one, copy all other fields and are guarded against double counting; listing prefix = family prefix ++ PartialEncode(key, n-1) with fixed components from the request and the callback decodes prefix++suffix with the same key type. List accessors decode into per-iteration variables.",
         "Trusts query.Paginate; prefix exactness relies on C18's decided clauses."),
 "C03": ("guard dominance + argument provenance of the ownership proof + body analysis of proof/verify/lookup functions; store-key ownership",
         "Every DID write in a handler is dominated by proof(...).err==nil; the proof looks keys up in the stored document read under the written key (or the submitted one on create), signs the document that gets stored, and internally succeeds only via doc.Authentications lookup, the exact secp256k1 key-type gate, decoded key and VerifySignature over Marshal(DataWithSeq{Marshal(data), seq}). Functions are found by role (reachability to PubKey.VerifySignature), not by name. The did store key is handed to the did keeper constructor only.",
         "Trusts cometbft secp256k1, base58, gogoproto marshalling."),
 "C04": ("provenance of stored/consumed sequence terms through handler, proof and verify functions; store-key ownership",
         "Stored sequence = 0 on create and = proof(...)[0] otherwise; the proof consumes the Sequence field of the entry read under the written key; proof returns verify's result unchanged; verify returns seq+1 of the seq inside the signed bytes; the query returns the stored entry unmodified. Replay rejection follows on paper from these. The did store key is handed to the did keeper constructor only.",
         "Trusts signature unforgeability/non-malleability; ignores uint64 wrap."),
 "C05": ("predicate expansion by path enumeration + truth-table entailment over entry-state atoms; who-may-call; loop shape; store-key ownership; provenance of the looked-up identifier",
         "Path condition at each write, with Empty/Deactivated expanded to {Document==nil, Id==\"\", Sequence==0}, excludes active/tombstone for creates and entails active for updates/deactivates; no Delete on the DID store; query succeeds only for active entries; genesis export/import/list loops have no conditional skip. The did store key is handed to the did keeper only; the read operation looks up exactly the requested identifier.",
         "Trusts store semantics and proto round trip of an empty sub-message."),
 "C11": ("validation coverage: dominating equality fact on every accepting path of ValidateBasic or in the handler; store-key ownership; provenance of the looked-up identifier",
         "For every handler storing a caller-supplied document under msg.Did, msg.Did == msg.Document.Id is established on every nil-returning path of the message's ValidateBasic or before the write; deactivation signs DIDDocument{Id: msg.Did}. Decided in full for messages (presence-on-every-path property). The read operation looks up exactly the base64-decoded request field, untransformed.",
         "Trusts baseapp running ValidateBasic before handlers; genesis files are trusted input."),
 "C06": ("interprocedural guard dominance with argument substitution (handler vocabulary) + sibling agreement with GetSigners + who-may-call; store-key ownership",
         "Every x/nft mutator call / raw pnft store write reached from a PNFT handler is dominated along the call chain by actor == owner-lookup(ids).Owner, the actor is the field GetSigners returns, the mutated resource is the one looked up, updates never re-key a denom and change its owner only in the hand-over schema, owner lookups read x/nft's stored records, x/nft mutators are used only by the pnft keeper. The pnft store key is handed to the pnft keeper constructor only.",
         "Trusts x/nft keeper internals, authz, signature verification."),
 "C12": ("reachability of token-data writers + provenance of minted literal + guard dominance (supply==0) + request-field use + regex/byte-language analysis of validators + sibling agreement of views; store-key ownership",
         "Only Mint writes token data (from the mint handler, with request-derived content and block time); class delete is dominated by GetTotalSupply(sameId)==0; every query request field is used; identifiers entering x/nft's delimiter-joined keys exclude the delimiter byte on every accepting path of ValidateBasic; the three token views agree field by field. The pnft store key is handed to the pnft keeper constructor only.",
         "Trusts x/nft owner index and iterators; genesis identifiers are trusted input."),
 "C07": ("must-call on all paths + provenance equalities in the burn function + configuration evaluation + who-may-call of bank mutators; library-precondition obligations on the burn path (narrowing, division); reachability from registered invariants; blocked-address evaluation",
         "EndBlock always runs the burn with the constant burn address and swallows its error (no panic); Coins sent = Coins burned = SpendableCoins of the sender parsed from that address; same module constant on both calls; early return only when that datum is empty; Burner permission, end-blocker order, manager registration and keeper construction are wired; coin-moving bank methods are called only from the burn keeper. No unguarded Int64()/division on the burn path; no module-registered invariant reads the burn balance while crisis precedes burn; the burn module account's address stays blocked.",
         "Trusts the bank keeper (supply accounting, SpendableCoins/SendCoins), crisis invariants, module manager dispatch."),
 "C19": ("evaluation of the literal upgrade/store configuration + exhaustiveness + definite-edge reachability from upgrade packages; provenance of the store loader's argument; reads-plus-failure scan of upgrade packages",
         "Every mounted store belongs to a module predating the first descriptor or is Added (and not later Deleted) by a registered descriptor; names distinct; handler and store-loader loops cover the whole Upgrades slice and run in New after manager/configurator; ConsensusVersion n has n-1 migrations; upgrade packages reach no aol/did/pnft store mutator. The store loader gets the matched descriptor's own StoreUpgrades; upgrade code that reads custom data creates no error and does not panic.",
         "Trusts x/upgrade, store loader, RunMigrations; does not execute the upgrade block."),
 "C16": ("abstract interpretation of validators (length interval × regular language) + exact regular-language equality (product automaton) against two oracles + propositional equivalence of ValidateBasic's accept condition with the documented constraints",
         "For all 14 messages the accept condition of ValidateBasic is equivalent to the conjunction of the documented per-field limits (both directions), with field languages compared exactly against the property statement and the repository's own documents (aol.md Limits table, did.md ABNF); DIDDocument.Valid validates all five relationship lists, every method and service; method ids, key material, key type, contexts and services follow the specification; PNFT handlers re-run validation.",
         "Trusts regexp/syntax, bech32 parsing, baseapp's ValidateBasic-before-handler sequencing; byte-vs-rune length compared as written."),
 "C18": ("conversion-guard dominance + linear normal form of index arithmetic over SSA + writer/reader agreement per typed key + language analysis of the separator",
         "Encoder: narrowing to one byte only under len<=255, one length byte then the whole value, index advances by 1+copied, buffer = sum(1+len). Decoder: accept iff idx+1+n<=len(bz) in linear normal form, copies bz[idx+1:idx+1+n], loop while idx<len. Typed keys: count/order/field binding agree between encode and decode (bytes and strings), address format and 8-byte width checked on decode. Separator outside every admitted alphabet. Injectivity/prefix-exactness follow on paper from these premises.",
         "Trusts copy/append/strings.Split/strconv; nothing is executed."),
 "C14": ("shape/provenance of GetSignBytes + exhaustiveness of codec registrations + finite pair analysis of legacy-amino JSON objects; enumeration of hand-written JSON marshalers on message types; wrapper-codec registration (authz/gov/group); language analysis of string fields (U+FFFD)",
         "GetSignBytes of all 14 messages is MustSortJSON(ModuleCdc.MustMarshalJSON(whole msg)); message types = RegisterImplementations set = RegisterConcrete set with distinct amino and proto names; all modules in ModuleBasics, DefaultSignModes; for the 7 legacy-amino-signable types every pair (21) is separated by a registered type name on the signing codec or by a required field absent from the other type. One pair (CreateDID/UpdateDID) is a recorded known finding. Hand-written marshalers on signed types are the reviewed json.Marshal-shaped ones; every custom message keeps its type inside MsgExec/MsgSubmitProposal (registered on the wrapper codec or separable); string fields are confined to valid UTF-8 or listed as known findings (F14).",
         "Trusts amino JSON encoder, MustSortJSON, SDK sign-mode handlers, proto encoding injectivity."),
 "C15": ("definite-edge reachability to coin-moving bank functions/interface methods (with positive control) + capability type scan + provenance of GetSigners under path conditions; origin of the fee checker's result; reachability from module-defined ante decorators to custom store writes",
         "No coin-moving bank keeper function or interface method is reachable from the 14 handlers, their stateless methods or the aol/did/pnft block hooks; the x/nft keeper never reads its bank keeper; AddRecord's signers are [feePayer, writer] iff a fee payer is named, else [writer]; all other messages have one signer; DeductFeeDecorator with the fee-grant keeper precedes signature verification. The fee decorator's checker is nil or returns tx.GetFee(); module-defined ante decorators write no aol/did/pnft state.",
         "Trusts DeductFeeDecorator, baseapp atomicity of runMsgs, bank supply accounting."),
 "C08": ("prefix/family coverage (who-may-call) + field agreement between exporter and importer + absence of authorization guards on the import call tree + loop-shape (no conditional skip) + key/value provenance of exported entries; loop-fresh decode targets; store-key ownership; map lookups of genesis validation vs deletable families",
         "Every store family handlers write is exported and imported through the same family's accessors, key type and separator; AOL/DID entries are stored whole and untouched; every Denom/Pnft field (incl. the current Owner) is read on the import call tree; no actor-vs-owner guard on the import path; exported key and value come from the same store entry; no export/import/list loop skips entries; no exporter iterates a Go map. Decode targets in list/export loops are fresh per iteration; each custom store key is handed to its own keeper constructor only; genesis validation looks nothing up in a family whose entries handlers delete.",
         "Trusts module manager dispatch, JSON/proto round trips; does not compare query answers."),
 "C17": ("panic-site obligations over the functions reachable from outside-controlled entry points: explicit panics vs ValidateBasic accept condition (unsatisfiability), Must* call-site preconditions, nil-dereference of wire pointers with preconditions propagated to call sites, constant-index/slice bounds vs dominating length facts, library preconditions; division, narrowing and key-conversion preconditions; compiler bounds-check cross-check (thorough)",
         "Every panic site (explicit, Must*, nil-deref of nillable wire pointers / generated getter results / query requests, constant index and slice bounds, cipher.NewCTR / pbkdf2.Key / regexp.MustCompile preconditions) in hand-written code reachable from ValidateBasic/GetSigners/GetSignBytes, message and query handlers, the key store, block hooks and the DID codec callbacks has a discharged obligation. Also: big/machine-integer division needs a non-zero divisor fact, Int64()/Uint64() an IsInt64()/IsUint64(), []byte→key-type conversions a pinned length; every index/slice site is enumerated and, in the thorough tier, cross-checked against the compiler's unproven bounds checks.",
         "Trusts the SDK, gogoproto Unmarshal (no nil elements), Go runtime; variable-index bounds inside compkey loops are covered by C18's linear-normal-form clauses; resource exhaustion not decided."),
 "C09": ("source-to-sink value-flow of non-deterministic sources over the consensus-reachable scope + order-sensitivity classification of map-range bodies + provenance of stored timestamps; local-time-zone renderings as sources; hidden-state channels",
         "In the module code reachable from consensus entry points no wall-clock/random/environment/channel/float/%p value flows into a store write, event, response, error or branch (logger/telemetry uses ignored; positive control outside the scope); no goroutine/select; every range over a map has an order-insensitive body; stored timestamps are ctx.BlockTime(). Renderings of a time in the node's local zone (time.Unix/Local/In without UTC) do not reach consensus-visible sinks; no process memory is both written and read by block-processing code.",
         "Trusts determinism of SDK/IAVL/gogoproto/stdlib; app-hash equality itself is not decided."),
 "C10": ("no-hidden-state-channel analysis: enumeration of writes/reads of package-level variables and fields of long-lived module structs over the consensus-reachable scope + configuration evaluation of store keys; type scan for non-persistent store keys; who-may-call of context/committed-store constructors",
         "No memory outside the KV stores (module globals, keeper/msg-server/app-module fields incl. reference-typed fields of by-value receivers) is both written and read by block-processing code; every store key a keeper opens a store with is created and mounted; the whole key map is mounted and LoadLatestVersion is called; no file/network I/O in scope. This is the structural necessary condition for restart equivalence on the repository's side. No memory/transient store key reaches the module's own keepers; contexts and raw committed stores are obtained only by block processing and genesis export (nothing is written at start-up).",
         "Trusts baseapp/rootmulti/IAVL for the actual stop/restart behaviour and crash points."),
 "C20": ("lock-set analysis of the key store (re-entrancy, deferred release, files-under-lock precondition) + definite-edge reachability from query handlers to store mutators + synchronisation check of every post-init write to shared memory + query-reads-process-memory channel analysis + append-on-shared-slice rule; lock-order graph over mutexes and channel semaphores with wrapper summaries; alias analysis of pooled memory",
         "Key store: no mutex re-acquired while held, deferred unlocks, directory access only under the lock; queries reach no store mutator and take their context from their own parameter; every post-init write to module globals / long-lived struct fields is under an exclusive mutex, atomic or sync.Map, locations written under a mutex are read under it, and no location written by block processing or queries is read by a query; appends onto package-level slices only on never-reassigned literals. No cycle in the acquisition order of mutexes/semaphores across the module; no function returns memory it also puts back into a sync.Pool.",
         "Trusts baseapp's height-bound query contexts and sync primitives; no schedule is explored, no race detector is run."),
}

# clauses added after the fourth seeding round: (technique suffix, text suffix)
EXTRA = {
 "C03": ("; loop-fresh decode targets over x/did; shape of GetSignBytes per message", " Code that decodes stored documents in a loop (listing, export, migration) uses a fresh target per iteration. GetSignBytes of every DID message is the sorted amino JSON of the whole message."),
 "C07": ("; path-condition audit of the send; module extension interfaces; definite-write analysis of the amount datum", " The send is skipped only when the spendable amount is empty or the address parameter does not parse: no other condition stands on the way. The burn module value implements EndBlockAppModule; the spendable coins read are not modified in place before they are sent."),
 "C08": ("; alias-aware write enumeration on the export call tree; raw-input flow in hand-written JSON decoders; constant-offset slices of Iterator.Key() in package app; separator language; module extension interfaces of the registered module value; per-file language version and build constraints; reviewed JSON forms of genesis types", " Nothing on an ExportGenesis call tree writes memory that outlives the call (also through struct copies of package variables that share maps); hand-written UnmarshalJSON methods take values only from the JSON library. Package app cuts no field out of a foreign store key by hand (finding F15, repaired); the genesis key separator occurs in no key component. The registered module value implements the SDK extension interface of every lifecycle method it declares; no file lowers the language version or carries a build constraint. Hand-written text-form methods on types inside a genesis state are the reviewed pairs."),
 "C09": ("; type walk for protobuf maps at binary-marshal sites; context-free calls on held foreign objects; non-persistent store keys; typestate of sync.Pool objects (reset discipline); genesis-order evaluation; package-initialiser scan; execution-mode sources", " No binary encoding of a map-carrying message, no Context-less call on an object implemented outside the module other than the reviewed codecs/subspace table, and no memory/transient store in block processing. A pooled object is reset after Get or handed back reset on every path. x/crisis is initialised after the modules whose invariants it asserts; no package initialiser renders or parses a bech32 address; IsCheckTx/IsReCheckTx/ExecMode are non-deterministic sources."),
 "C10": ("; context-free calls on held foreign objects; per-file language version and build constraints; definite-write analysis of store Get results", " Objects implemented outside the module are consulted with a Context (reviewed exceptions: codecs, params subspace table). No file lowers the language version; the slice a KV store Get returns is never written into."),
 "C12": ("; loop-fresh decode targets over x/pnft; provenance of page requests handed to x/nft; shape of the raw class key builder", " Listings decode each token's metadata into a fresh variable. x/nft's paginated queries are called only as a pass-through of a gRPC handler's own page request (finding F16, repaired); the hand-built class key is prefix ++ whole id."),
 "C14": ("; definite-write analysis of message entry points (receiver-reachable memory); nullable-field analysis (absent vs. present-but-empty)", " ValidateBasic/GetSigners/GetSignBytes/Route/Type perform no definite write into memory reachable from the message (stores, map updates, append onto re-sliced message slices, in-place sorts, through module callees). Nullable omitempty fields: 'absent' and 'present but empty' are not both accepted (accept condition of the reading validator instantiated twice; predicates evaluated on the empty value by a CFG walk)."),
 "C15": ("; enumeration of Ante/PostDecorator implementers; write enumeration on handler call trees; context-free calls on held foreign objects over the handler call trees", " Every module type that can sit in an ante or post-handler chain moves no coins; no package variable or long-lived field is both written and read on the handlers' call trees (such writes survive a failed message). Handlers use no object implemented outside the module without a Context (a keeper-owned store outside the multistore is not rolled back)."),
 "C16": ("; who-may-call of the SDK address configuration", " No custom address verifier is installed and the account prefix is the constant panacea (the SDK's own format check defines a well-formed address)."),
 "C19": ("; dominance in InitChainer; module extension interfaces of the registered module value; per-file language version and build constraints; provenance of the configurator", " InitChainer stores the module manager's version map through the upgrade keeper before the modules' InitGenesis. The registered module value implements the SDK extension interface of every lifecycle method it declares; no file lowers the language version or carries a build constraint. app.configurator is module.NewConfigurator's own result (RunMigrations accepts no wrapper)."),
 "C20": ("; non-persistent store keys; definite-write analysis of message memory (strict appends); typestate of store iterators", " The module's keepers receive no memory/transient store key (such stores are not versioned by query height). Validation/sign-bytes code does not write into or append onto the message; every store iterator is closed on every path."),
 "C02": ("; shape of GetSignBytes per message; single registered MsgServer implementation", " GetSignBytes of every AOL message is the sorted amino JSON of the whole message (the authorising signature covers topic, writer and owner). The value registered as MsgServer is the module's single hand-written implementation."),
 "C04": ("; genesis import loop shape and stored-entry provenance; constructor-field landing of the store key; module extension interfaces of the registered module value; per-file language version and build constraints; reviewed JSON forms of genesis types", " Genesis import stores every entry (tombstones included) whole under its own key; the did store key lands in the keeper field the KV store is opened with. The registered module value implements the SDK extension interface of every lifecycle method it declares; no file lowers the language version or carries a build constraint. Hand-written text-form methods on types inside the did genesis state are the reviewed pairs."),
 "C05": ("; proof-body rules (key-type gate, decoded key, verify sequence passed through); module extension interfaces of the registered module value; per-file language version and build constraints; reviewed JSON forms of genesis types", " The proof hands back the verifier's seq+1 on every path (a tombstone differs from 'absent' only by its non-zero sequence). The registered module value implements the SDK extension interface of every lifecycle method it declares; no file lowers the language version or carries a build constraint. Hand-written text-form methods on types inside the did genesis state are the reviewed pairs."),
 "C06": ("; shape of GetSignBytes per message; sibling agreement of token views; module extension interfaces; x/nft reads on the export path; shape of the raw class key builder", " GetSignBytes of every PNFT message is the sorted amino JSON of the whole message; every token view reports the stored owner record of that very token. The pnft module value implements the extension interfaces of its lifecycle methods; the export reads classes, tokens and owners through full iterators; the hand-built class key is prefix ++ whole id."),
 "C11": ("; genesis import loop shape and stored-entry provenance; module extension interfaces of the registered module value; per-file language version and build constraints", " Genesis import stores every entry whole under the very key it was exported under. The registered module value implements the SDK extension interface of every lifecycle method it declares; no file lowers the language version or carries a build constraint."),
 "C13": ("; provenance of the page request; module extension interfaces of the registered module value; per-file language version and build constraints", " The pager is given the request's own Pagination, untouched. The registered module value implements the SDK extension interface of every lifecycle method it declares; no file lowers the language version or carries a build constraint."),
 "C17": ("; blocked-address evaluation; delegation of custom protobuf wire methods; decoder-filled pointers as nillable sources", " The burn module account's address stays blocked (otherwise auth.GetModuleAccount panics in every block). Hand-written Size/Marshal/MarshalTo/Unmarshal of the custom proto type delegate to generated code; pointers filled by a decoder are nil-checked before use."),
 "C18": ("; provenance of exported key strings; definite-write analysis of key decoders; who-may-call of the SDK address configuration", " Exported genesis keys are compkey.EncodeToString(key, separator) and DecodeFromString splits with the separator handed in; FromByteSlices/FromStrings never write into storage the receiver's slices already have. No custom address verifier is installed (the empty address has no parseable key string)."),
 "C01": ("; module extension interfaces of the registered module value; per-file language version and build constraints", " The registered module value implements the SDK extension interface of every lifecycle method it declares; no file lowers the language version or carries a build constraint."),
}

# clauses added in seeding rounds 6 and 7 (appended to the texts above)
EXTRA2 = {
 "*": ("; error-discipline lints over the property's packages (nil wraps, tested-then-dropped errors)", " No error wrap of module code wraps a definitely-nil error, and no tested failure is replaced by a stale nil variable."),
 "C01": ("; early-exit analysis of every 'all elements' loop; parallel-result discipline of list accessors; export loop bounds; view limits vs. validator limits", " List accessors return their parallel result lists untouched; export loops walk the list they index; a view's length limit is not below the validators'."),
 "C02": ("; typed-key position/field agreement", " The typed keys' string form binds every position to its own field."),
 "C05": ("; export-height provenance in the export command; success of fallible steps on the looked-up identifier", " An export at height H loads H; the queried identifier is completely decoded where it is looked up."),
 "C07": ("; provenance of the context handed to the burn; recover scan; permissions of constructed module accounts", " The burn runs with EndBlock's own Context; x/burn recovers from no panic; a burn module account constructed by module code carries Burner."),
 "C08": ("; ValidateGenesis verdict flow; partial-update guard/field agreement", " ValidateGenesis returns the validator's verdict; partial updates test, read and write the same field."),
 "C09": ("; process-wide registries and foreign package variables / objects; early exits of map walks", " Block-processing code registers no error code, writes into no variable or long-lived object of another package, and no map walk that acts per entry can stop early."),
 "C10": ("; process-wide registries and foreign package variables / objects; store-descriptor accounting", " The same process-wide state rule as C09; the upgrade descriptors account for every mounted store (restart at an upgrade height)."),
 "C12": ("; definite-write analysis of query request methods; x/nft reads and loop shape of the export", " Request validation does not rewrite the request; the export reads every class and token."),
 "C13": ("; compkey encoder shape", " The encoder rejects every oversized component (the bound test indexes the current element)."),
 "C17": ("; sign of Repeat counts; upper bounds of make sizes taken from requests", " strings.Repeat counts are non-negative; slices sized from a request field have a dominating upper bound."),
 "C19": ("; provenance of the version map returned by handlers; legacy params subspace table; type-assertion scan of upgrade code", " A handler's successful return hands back RunMigrations' map; every registered legacy subspace gets a key table; upgrade code makes no unchecked type assertion."),
}

EXTRA3 = {
 "C03": ("; exact-length test of decoded key material", " Decoded public-key material has exactly the curve's key size where ownership is established."),
 "C06": ("; import loop shape; delimiter exclusion of identifiers", " The import stores every listed denom and token; identifiers exclude x/nft's key delimiter."),
 "C07": ("; path conditions of panics in the burn genesis import; account constructors at module addresses", " No panic of the burn genesis import depends on a balance or account read; no plain account is stored at a module address."),
 "C08": ("; stored-type validation vs. message validation (interval and language inclusion)", " Genesis validation of a stored type accepts everything the messages can store."),
 "C09": ("; mutation of ranged maps", " No map is inserted into (under a key other than the current one) while it is ranged over."),
 "C10": ("; SDK-facing decorator and hook types in the block-processing scope", " Ante decorators and hooks handed to the SDK keep no state in process memory."),
 "C15": ("; lost writes through value receivers", " No setter on a value receiver is called for its effect."),
 "C17": ("; store keys that can shrink to nothing", " A store key that went through a trimming function has a non-emptiness guarantee."),
 "C18": ("; provenance of the string the decoder splits", " DecodeFromString splits its own parameter."),
 "C19": ("; hidden-state channels of the three data modules; contexts created by start-up code", " AOL, DID and PNFT data live in committed stores only and start-up code creates no context (restart around the upgrade height)."),
 "C20": ("; copies into package-level slices as writes", " copy into a package-level slice counts as a write to shared state."),
}

EXTRA4 = {
 "C01": ("; module genesis glue; typed-key decoder bounds vs. message limits; export height in the app's own loader", " The module glue hands the decoded state to the import on every returning path and changes nothing; typed-key decoders accept every component a message can store."),
 "C02": ("; freshness of export containers; lost receiver writes in key types", " An export builds fresh containers; a key is encoded as it is."),
 "C04": ("; export-height provenance", " An export at height H loads H."),
 "C05": ("; exact language of the identifier validator; module genesis glue", " ValidateDID admits exactly did:panacea:<32-44 base58>; the module glue marshals the exported state unchanged."),
 "C06": ("; separation of composite map keys", " Maps keyed by several identifiers keep them apart."),
 "C08": ("; module genesis glue; nil-vs-empty lists in entry-state predicates; separation of composite map keys; whole-family iteration of list accessors", " Entry-state predicates do not tell a nil list from an empty one; list accessors iterate their whole family."),
 "C09": ("; compound store effects inside map walks; address-printing fmt operands; map ranges in app set-up code", " No memory address reaches consensus-visible text; map walks that read-modify-write a second entry are order-sensitive."),
 "C10": ("; map ranges in app set-up code; full walk of the upgrade set-up loops", " Start-up configuration does not depend on map order; every upgrade descriptor gets its handler and loader."),
 "C12": ("; field assignments to decoded entities outside saving functions; module genesis glue; separation of composite map keys", " Getters and listers return entities as stored."),
 "C13": ("; string decoder provenance; typed-key decoder bounds vs. message limits", " The string decoder splits its parameter; decoders accept maximum-length names."),
 "C16": ("; quantifier shape of plural list predicates", " EmptyDIDs / ValidateDIDs hold only when every element does."),
 "C17": ("; Burner permission of the burn module account", " bank.BurnCoins cannot panic inside EndBlock for a missing permission."),
 "C18": ("; whole-family iteration of list accessors; typed-key decoder bounds vs. message limits", " GetAll* accessors put no bounds of their own on the family's prefix store."),
 "C19": ("; reachability of core-family writers from registered module migrations", " In-place migrations of the three data modules rewrite no entry."),
 "C20": ("; map ranges on query paths; appends onto package-level slices through locals", " No query answer is assembled in map order."),
}

EXTRA5 = {
 "C03": ("; id/DID binding of stored documents", " A caller-supplied document is stored under DID d only if document.id == d."),
 "C05": ("; id/DID binding of stored documents", " A caller-supplied document is stored under DID d only if document.id == d."),
 "C07": ("; exceptions of the blocked-address set", " Only the gov module account is taken off the blocked set."),
 "C08": ("; maintenance of module-owned pnft store families on creation and removal; class-delete guard", " A store family the creating handler writes is maintained by the removing handler; a class is deleted only at zero supply."),
 "C09": ("; typed-key position/field agreement; in-place writes into store values", " Distinct genesis keys decode to distinct store keys; store values are not modified in place."),
 "C10": ("; clock/random sources reaching state; upgrade-handler-shaped functions in scope", " A block executed again after a restart sees the same inputs; handler wrappers do no file I/O."),
 "C11": ("; active-only answers of the read operation", " The read operation answers active entries only."),
 "C16": ("; provenance of the stored DID document", " The document a DID handler stores is the validated message document."),
 "C17": ("; exceptions of the blocked-address set", " Only the gov module account is taken off the blocked set."),
 "C18": ("; one-sided range iterations", " Range iterations inside a family's store are bounded on both sides or on neither."),
 "C20": ("; goroutine and channel scan of validation/query code", " Validation, sign-bytes, query and genesis-validation code starts no goroutine and uses no channel."),
}

EXTRA6 = {
 "C02": ("; list accessor vs. pagination helpers on the export path", " The export reads every writer (no page-limited walk)."),
 "C07": ("; account writes in x/burn", " The burn module replaces, creates or removes no account."),
 "C10": ("; registrations in the params keeper's process memory during blocks (F18)", " No subspace or key table is registered while a block is processed."),
 "C12": ("; order of set/delete in index moves", " An index entry that is moved is deleted before it is re-written (self-transfers keep it)."),
 "C18": ("; provenance of range bounds", " Range bounds are encoded keys or PrefixEndBytes of one."),
 "C19": ("; registrations in the params keeper's process memory during blocks (F18); persistent stores only", " The upgrade handlers register nothing in process memory; module state lives in committed stores."),
}

EXTRA7 = {
 "C05": ("; bounds of the export's DID iteration", " The list accessor on the export path iterates the whole DID family (no bounds of its own)."),
 "C12": ("; receiver writes of the stored types' validators", " Validators of the stored token and denom types do not rewrite what they validate."),
 "C15": ("; fields of package-level structs as process memory", " A field of a package-level struct read on a handler's call tree counts as a read of that variable."),
 "C16": ("; verdict provenance of the relationship validator", " A relationship is accepted only through the method validator or the method-id validator."),
 "C18": ("; inverse pairing of rewrites in the string form", " The string encoder and decoder rewrite no component, or apply a recognised inverse pair."),
 "C19": ("; raw DID-store writes and deletes on migration paths", " A registered module migration reaches no raw write or delete of the DID store."),
 "C20": ("; read accessors return the stored value only", " The AOL read accessors return the unmarshalled store value and nothing derived from the context."),
}

PENDING_REASON = "check not built yet in this round (planned per DESIGN.md section 4); no claim is made until the checker rule exists"

def main():
    props = [json.loads(l) for l in open("/verif/properties.jsonl")]
    checks, na = [], []
    for p in props:
        pid = p["id"]
        if pid in CHECKS:
            tech, text, note = CHECKS[pid]
            if pid in EXTRA:
                tech, text = tech + EXTRA[pid][0], text + EXTRA[pid][1]
            if pid in EXTRA2:
                tech, text = tech + EXTRA2[pid][0], text + EXTRA2[pid][1]
            if pid in EXTRA3:
                tech, text = tech + EXTRA3[pid][0], text + EXTRA3[pid][1]
            if pid in EXTRA4:
                tech, text = tech + EXTRA4[pid][0], text + EXTRA4[pid][1]
            if pid in EXTRA5:
                tech, text = tech + EXTRA5[pid][0], text + EXTRA5[pid][1]
            if pid in EXTRA6:
                tech, text = tech + EXTRA6[pid][0], text + EXTRA6[pid][1]
            if pid in EXTRA7:
                tech, text = tech + EXTRA7[pid][0], text + EXTRA7[pid][1]
            if pid in ("C01","C02","C03","C04","C05","C06","C07","C08","C11","C12","C13","C15","C16","C18"):
                tech, text = tech + EXTRA2["*"][0], text + EXTRA2["*"][1]
            checks.append({
                "property_id": pid,
                "quick_cmd": f"tools/pverif check {pid} --tier quick",
                "thorough_cmd": f"tools/pverif check {pid} --tier thorough",
                "evidence_file": f"/verif/evidence/{pid}.json",
                "replay_cmd_template": f"tools/pverif explain {pid} --from {{path}}",
                "engine": "pverif",
                "level_claimed": {"category": "other", "text": text, "design_ref": f"DESIGN.md section 4, {pid}"},
                "level_note": note,
                "technique": "static analysis: " + tech,
            })
        else:
            na.append({"property_id": pid, "reason": NA.get(pid, PENDING_REASON)})
    m = {
        "version": 1,
        "setup_cmd": f"cd /verif/checker && {ENV} go build -o /verif/bin/pverif .",
        "hooks": {"guard": "verif", "enable": "none needed: the checker reads source only (no hooks, no instrumentation)",
                  "baseline_off_cmd": f"cd /repo && {ENV} go test -vet=off -count=1 ./...",
                  "source_commits": [], "add_only": True},
        "engines": [{"name": "pverif", "path": "/verif/checker", "serves_properties": sorted(CHECKS),
                     "kind_free_text": "repository-specific static checker (go/packages + go/types + go/ssa, x/tools v0.29.0): provenance terms, path-condition entailment, who-may-call, definite-edge reachability, configuration evaluation"}],
        "checks": checks,
        "not_applicable": na,
        "notes": "All verdicts are computed from /repo's current working tree on every run; nothing from the repository is executed. Known findings: /verif/known_findings.json.",
    }
    json.dump(m, open("/verif/MANIFEST.json", "w"), indent=1)
    try:
        import jsonschema
        jsonschema.validate(m, json.load(open("/root/.vp/MANIFEST.schema.json")))
        print("manifest valid:", len(checks), "checks,", len(na), "not claimed")
    except ImportError:
        print("jsonschema not available; not validated")

NA = {}
if __name__ == "__main__":
    main()
