#!/bin/bash
# seedcheck.sh <dir with patch.diff + demo test> [ids] — confirm a seeded change (compiles, suite passes, demo fails with / passes without)
# in a scratch copy, then run the checker on the patched copy. Scratch copy is removed afterwards.
set -u
export GOFLAGS=-mod=mod GOPROXY=off GOSUMDB=off GOTOOLCHAIN=local; unset GOWORK
d=$1; ids=${2:-all}
scratch=$(mktemp -d /tmp/pvs.XXXXXX)
trap 'rm -rf "$scratch"' EXIT
rsync -a --exclude .git --exclude client/docs /repo/ "$scratch/"
cd "$scratch"
demo=$(ls $d/*_test.go 2>/dev/null | head -1)
dest=""
if [ -n "$demo" ]; then
  dest=$(head -3 "$demo" | grep -oE '[A-Za-z0-9_./-]+_test\.go' | head -1)
  [ -z "$dest" ] && dest="x/zzdemo/$(basename $demo)"
fi
patch -p1 -s --no-backup-if-mismatch < $d/patch.diff || { echo "PATCH-FAILED"; exit 3; }
if go build -trimpath ./... 2>&1 | grep -q .; then echo "NOCOMPILE"; go build -trimpath ./... 2>&1 | head; exit 4; fi
np=$(go test -trimpath -vet=off -count=1 -json ./... 2>/dev/null | python3 -c "
import sys,json
p=set();f=set()
for l in sys.stdin:
    try: e=json.loads(l)
    except: continue
    if e.get('Test') and e['Action'] in('pass','fail'):
        (p if e['Action']=='pass' else f).add(e['Package']+'::'+e['Test'])
base=set(json.load(open('/root/.vp/BASELINE.json'))['stable_pass'])
print('suite: pass=%d fail=%d baseline_missing=%d'%(len(p),len(f),len(base-p)))")
echo "$np"
if [ -n "$dest" ]; then
  mkdir -p $(dirname $dest); cp $demo $dest
  pkg=./$(dirname $dest)
  if go test -trimpath -vet=off -count=1 $pkg >/tmp/pvs_demo.log 2>&1; then echo "demo WITH change: PASS (unexpected)"; else echo "demo WITH change: FAIL (expected)"; fi
  patch -p1 -R -s --no-backup-if-mismatch < $d/patch.diff
  if go test -trimpath -vet=off -count=1 $pkg >/tmp/pvs_demo2.log 2>&1; then echo "demo WITHOUT change: PASS (expected)"; else echo "demo WITHOUT change: FAIL (unexpected)"; tail -5 /tmp/pvs_demo2.log; fi
  rm -f $dest
  patch -p1 -s --no-backup-if-mismatch < $d/patch.diff
fi
mkdir -p "$scratch/.verif"; cp /verif/known_findings.json "$scratch/.verif/"
"${PVERIF_BIN:-/verif/bin/pverif}" check "$ids" --repo "$scratch" --verif "$scratch/.verif" 2>&1 | grep -E '^(VIOLATED|UNDECIDED|KNOWN-FINDING)' | sed "s#$scratch/##g" | cut -c1-${MUTEST_WIDTH:-330}
echo "--- end"
