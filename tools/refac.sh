#!/bin/bash
# refac.sh [glob] — run every behaviour-preserving variant (mutants/refac/R-*.patch) against ALL properties; each must be silent.
cd /verif
for f in mutants/refac/${1:-R-*}.patch; do
  n=$(basename $f .patch)
  echo "== $n: $(tools/mutest.sh /verif/$f all 2>&1 | grep -E '^(VIOLATED|UNDECIDED|NOCOMPILE|PATCH)' | awk '{split($2,a,":"); print $1, a[1]":"a[2]}' | sort | uniq -c | tr '\n' ';')"
done
