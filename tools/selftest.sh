#!/bin/bash
# selftest.sh [jobs] — run every self-test variant against ALL properties:
#   mutants/<Cxx>-m<n>.patch must raise >=1 violation in property Cxx; mutants/S<n>.patch must raise none anywhere;
#   mutants/regress/F*.patch (a reverted fix) must raise >=1; seeded/*/patch.diff must raise >=1.
# Prints one line per variant and a summary; exit 1 if any expectation fails.
cd /verif
jobs=${1:-4}
out=$(mktemp /tmp/pvselftest.XXXXXX)
run() {
  f=$1; n=$(basename $f .patch); [ "$n" = patch.diff ] && n=$(basename $(dirname $f)); [ "$(basename $f)" = patch.diff ] && n=$(basename $(dirname $f))
  res=$(/verif/tools/mutest.sh $f all 2>&1)
  nv=$(echo "$res" | grep -cE "^(VIOLATED|UNDECIDED)")
  props=$(echo "$res" | grep -E "^(VIOLATED|UNDECIDED)" | sed -E 's/^[A-Z]+ [A-Z-]+:(C[0-9]+).*/\1/' | sort -u | tr '\n' ',')
  fail=$(echo "$res" | grep -E "NOCOMPILE|PATCH-FAILED|CHECKER-ERROR" | head -1)
  echo "$n|$nv|$props|$fail"
}
export -f run
( ls mutants/*.patch mutants/regress/*.patch mutants/refac/*.patch mutants/feat/*.patch seeded/*/patch.diff ) | xargs -P $jobs -I{} bash -c 'run /verif/{}' > $out
bad=0
sort $out | while IFS='|' read n nv props fail; do
  exp=""; ok=1
  case $n in
    P-aol2-2) exp="C16-only(new limited field: see mutants/feat/EXPECTED.md)"; [ "$props" = "C16," ] || ok=0;;
    R-aol7-2|R-aol7-3|R-aol7-4|R-aol7-5|R-did7-6|R-pnftburn7-5|R-aol9-3|R-aol10-4|R-pnftburn10-1|R-pnftburn10-3|P-aol5-3|P-pnftburn5-1) exp="limit(see mutants/refac/KNOWN_LIMITS.md, mutants/feat/EXPECTED.md)";;
    S*|R-*|P-*) [ "$nv" != 0 ] && ok=0; exp="silent";;
    F*) [ "$nv" = 0 ] && ok=0; exp="regression";;
    C*-*m*) p=${n%%-*}; exp="fires($p)"; echo "$props" | grep -q "$p" || { [ -d seeded/$n ] && [ "$nv" != 0 ] || ok=0; };;
  esac
  [ -n "$fail" ] && ok=0
  printf "%-10s %-14s violations=%-3s props=%-40s %s %s\n" $n "$exp" $nv "$props" "$([ $ok = 1 ] && echo ok || echo UNEXPECTED)" "$fail"
done | tee $out.table
grep -c UNEXPECTED $out.table | xargs -I{} echo "unexpected: {}"
grep -q UNEXPECTED $out.table && exit 1 || exit 0
