#!/usr/bin/env python3
"""Regenerates /verif/mutants/*.patch from the edit table in /verif/mutants/table.py.
Each mutant is a list of (file, old, new) textual edits against /repo's current tree (old must occur exactly once,
unless new file: old == None). Patches are unified diffs with a/ b/ prefixes (apply with patch -p1)."""
import difflib, os, sys, importlib.util
spec = importlib.util.spec_from_file_location("table", "/verif/mutants/table.py")
table = importlib.util.module_from_spec(spec); spec.loader.exec_module(table)
only = set(sys.argv[1:])
for name, edits in table.MUTANTS.items():
    if only and name not in only: continue
    out = []
    files = {}
    for (f, old, new) in edits:
        path = os.path.join("/repo", f)
        if f not in files:
            files[f] = open(path).read() if os.path.exists(path) else None
        cur = files[f]
        if old is None:
            assert cur is None or True
            files[f] = (cur or "") + new if cur is not None else new
            continue
        if cur.count(old) != 1:
            print(f"!! {name}: {f}: old text occurs {cur.count(old)} times"); break
        files[f] = cur.replace(old, new)
    else:
        for f, newtxt in files.items():
            path = os.path.join("/repo", f)
            orig = open(path).read() if os.path.exists(path) else ""
            a = orig.splitlines(keepends=True); b = newtxt.splitlines(keepends=True)
            fromf = "a/" + f if orig else "/dev/null"
            out += list(difflib.unified_diff(a, b, fromf, "b/" + f, n=3))
        open(f"/verif/mutants/{name}.patch", "w").write("".join(out))
        print("wrote", name)
