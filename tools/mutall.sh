#!/bin/bash
# mutall.sh [glob] — run every mutant patch (in parallel, 4 at a time) against the properties it names; print a verdict per mutant.
cd /verif/mutants
pat=${1:-*}
ls $pat.patch regress/$pat.patch 2>/dev/null | xargs -P 4 -I{} bash -c '
  f={}; n=$(basename $f .patch)
  case $n in
    S*) ids=all;;
    F*) ids=all;;
    *) ids=${n%%-*};;
  esac
  [ -n "$MUTEST_IDS" ] && ids=$MUTEST_IDS
  out=$(/verif/tools/mutest.sh /verif/mutants/$f $ids 2>&1)
  nv=$(echo "$out" | grep -cE "^(VIOLATED|UNDECIDED)")
  first=$(echo "$out" | grep -E "^(VIOLATED|UNDECIDED|NOCOMPILE|PATCH-FAILED)" | head -${MUTALL_LINES:-2} | cut -c1-260)
  echo "== $n ids=$ids violations=$nv"; echo "$first"
'
