#!/bin/bash
# ownprop.sh [jobs] — for every seeded change, run only the check of the property the change was seeded against and report
# the ones that check does not flag (they may still be flagged by another property's check: see selftest.sh).
cd /verif
jobs=${1:-6}
run() {
  d=$1; n=$(basename $d); p=${n%%-*}
  # a seed whose own property holds on the changed tree (meta.json own_property_holds) is reported by the property it does break
  grep -q '"own_property_holds"' $d/meta.json && { echo "$n $p own-property-holds(see meta.json)"; return; }
  res=$(/verif/tools/mutest.sh $d/patch.diff $p 2>&1 | grep -cE "^(VIOLATED|UNDECIDED)")
  echo "$n $p own-property-violations=$res"
}
export -f run
ls -d seeded/C*/ | sed 's#/$##' | xargs -P $jobs -I{} bash -c 'run /verif/{}' | sort | tee /tmp/ownprop.out | grep "violations=0$"
echo "seeds: $(wc -l < /tmp/ownprop.out), not flagged by their own property's check: $(grep -c 'violations=0$' /tmp/ownprop.out)"
