#!/bin/bash
# runall.sh [tier] — run every claimed check of MANIFEST.json against /repo (one process, one load) and rewrite /verif/evidence/*.json
cd /verif
tier=${1:-quick}
ids=$(python3 -c "import json;print(','.join(c['property_id'] for c in json.load(open('MANIFEST.json'))['checks']))")
tools/pverif check "$ids" --tier "$tier" 2>&1 | grep -E '^(SUMMARY|VIOLAT|UNDECIDED|KNOWN)' | cut -c1-300
