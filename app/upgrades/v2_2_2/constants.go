package v2_2_2

import (
	storetypes "github.com/cosmos/cosmos-sdk/store/types"
	"github.com/medibloc/panacea-core/v2/app/upgrades"
	aoltypes "github.com/medibloc/panacea-core/v2/x/aol/types"
)

var Upgrade = upgrades.Upgrade{
	UpgradeName:          "v2.2.2",
	CreateUpgradeHandler: CreateUpgradeHandle,
	StoreUpgrades:        storetypes.StoreUpgrades{},
	// until the upgrade handler has run, the chain is still on the v2.2.1 rules: transactions that reach the
	// node before the upgrade block are checked against the bare sign bytes v2.2.1 clients produce
	BeforeUpgrade: func() { aoltypes.SetTypedSignBytes(false) },
}
