package v2_2_2

import (
	storetypes "github.com/cosmos/cosmos-sdk/store/types"
	"github.com/medibloc/panacea-core/v2/app/upgrades"
)

var Upgrade = upgrades.Upgrade{
	UpgradeName:          "v2.2.2",
	CreateUpgradeHandler: CreateUpgradeHandle,
	StoreUpgrades:        storetypes.StoreUpgrades{},
}
