package v2_2_2

import (
	sdk "github.com/cosmos/cosmos-sdk/types"
	"github.com/cosmos/cosmos-sdk/types/module"
	upgradetypes "github.com/cosmos/cosmos-sdk/x/upgrade/types"
	"github.com/medibloc/panacea-core/v2/app/keepers"
)

func CreateUpgradeHandle(mm *module.Manager, configurator module.Configurator, keepers *keepers.AppKeepersWithKey) upgradetypes.UpgradeHandler {
	return func(ctx sdk.Context, plan upgradetypes.Plan, fromVM module.VersionMap) (module.VersionMap, error) {
		// runs the x/aol v1 -> v2 store migration (writer timestamp backfill)
		return mm.RunMigrations(ctx, configurator, fromVM)
	}
}
