package v2_2_2

import (
	sdk "github.com/cosmos/cosmos-sdk/types"
	"github.com/cosmos/cosmos-sdk/types/module"
	upgradetypes "github.com/cosmos/cosmos-sdk/x/upgrade/types"
	"github.com/medibloc/panacea-core/v2/app/keepers"
	aoltypes "github.com/medibloc/panacea-core/v2/x/aol/types"
)

func CreateUpgradeHandle(mm *module.Manager, configurator module.Configurator, keepers *keepers.AppKeepersWithKey) upgradetypes.UpgradeHandler {
	return func(ctx sdk.Context, plan upgradetypes.Plan, fromVM module.VersionMap) (module.VersionMap, error) {
		// from this block on, the legacy amino-JSON sign bytes of the AOL messages carry the message type
		aoltypes.SetTypedSignBytes(true)

		return mm.RunMigrations(ctx, configurator, fromVM)
	}
}
