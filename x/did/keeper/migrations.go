package keeper

import (
	"github.com/cosmos/cosmos-sdk/store/prefix"
	sdk "github.com/cosmos/cosmos-sdk/types"
	"github.com/medibloc/panacea-core/v2/x/did/types"
)

// Migrator is a struct for handling in-place store migrations.
type Migrator struct {
	keeper Keeper
}

// NewMigrator returns a new Migrator.
func NewMigrator(keeper Keeper) Migrator {
	return Migrator{keeper: keeper}
}

// Migrate1to2 migrates the store from the layout <did> -> document to the versioned layout <did>/<sequence> -> document.
// The only version known for the existing DIDs is the current one.
func (m Migrator) Migrate1to2(ctx sdk.Context) error {
	store := prefix.NewStore(ctx.KVStore(m.keeper.storeKey), types.DIDKeyPrefix)

	type entry struct {
		key   []byte
		value []byte
	}
	var legacy []entry

	iter := sdk.KVStorePrefixIterator(store, []byte{})
	for ; iter.Valid(); iter.Next() {
		legacy = append(legacy, entry{key: iter.Key(), value: iter.Value()})
	}
	if err := iter.Close(); err != nil {
		return err
	}

	for _, e := range legacy {
		var doc types.DIDDocumentWithSeq
		if err := m.keeper.cdc.UnmarshalLengthPrefixed(e.value, &doc); err != nil {
			return err
		}
		store.Delete(e.key)
		store.Set(types.DIDVersionKey(string(e.key), doc.Sequence), e.value)
	}
	return nil
}
