package ante

import (
	"cosmossdk.io/errors"
	sdk "github.com/cosmos/cosmos-sdk/types"
	"github.com/medibloc/panacea-core/v2/x/aol/types"
)

// RecordKeeper is the part of the AOL keeper that DuplicateRecordDecorator needs.
type RecordKeeper interface {
	HasRecordDigest(ctx sdk.Context, digest []byte) bool
	SetRecordDigest(ctx sdk.Context, digest []byte, height int64)
}

// DuplicateRecordDecorator rejects a transaction that submits a record (same owner, topic, key
// and value) which has been submitted before.
//
// Clients of fee payers re-send their add-record transactions when they do not get an answer in
// time, and every copy that reaches a block is appended to the topic again and is paid for again.
// Doing the check here rather than in the message server drops the copies at CheckTx already, so
// they neither enter the mempool nor cost the fee payer anything.
type DuplicateRecordDecorator struct {
	keeper RecordKeeper
}

func NewDuplicateRecordDecorator(keeper RecordKeeper) DuplicateRecordDecorator {
	return DuplicateRecordDecorator{keeper: keeper}
}

func (d DuplicateRecordDecorator) AnteHandle(ctx sdk.Context, tx sdk.Tx, simulate bool, next sdk.AnteHandler) (sdk.Context, error) {
	for _, msg := range tx.GetMsgs() {
		addRecord, ok := msg.(*types.MsgAddRecordRequest)
		if !ok {
			continue
		}

		digest := addRecord.RecordDigest()
		if d.keeper.HasRecordDigest(ctx, digest) {
			return ctx, errors.Wrapf(types.ErrDuplicateRecord, "topic <%s, %s>, key %X", addRecord.OwnerAddress, addRecord.TopicName, addRecord.Key)
		}
		if !simulate {
			d.keeper.SetRecordDigest(ctx, digest, ctx.BlockHeight())
		}
	}

	return next(ctx, tx, simulate)
}
