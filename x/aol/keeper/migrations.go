package keeper

import (
	sdk "github.com/cosmos/cosmos-sdk/types"
	"github.com/medibloc/panacea-core/v2/x/aol/types"
)

// Migrator is a struct for handling in-place store migrations.
type Migrator struct {
	keeper Keeper
}

// NewMigrator returns a new Migrator.
func NewMigrator(keeper Keeper) Migrator {
	return Migrator{keeper: keeper}
}

// Migrate1to2 migrates the x/aol store from consensus version 1 to 2.
//
// Writers that were carried over from the v1 chain through the genesis file have no
// registration time (nano_timestamp == 0), which breaks clients sorting writers by time.
// The best approximation still available on chain is the time of the first record the
// writer appended, so the missing timestamps are backfilled from the records.
func (m Migrator) Migrate1to2(ctx sdk.Context) error {
	k := m.keeper

	// records are iterated in <owner, topic, offset> order, hence the first record
	// seen for a writer of a topic is the earliest one.
	recordKeys, records := k.GetAllRecords(ctx)
	for i, recordKey := range recordKeys {
		writerAddr, err := sdk.AccAddressFromBech32(records[i].WriterAddress)
		if err != nil {
			return err
		}

		writerKey := types.WriterCompositeKey{
			OwnerAddress:  recordKey.OwnerAddress,
			TopicName:     recordKey.TopicName,
			WriterAddress: writerAddr,
		}
		writer := k.GetWriter(ctx, writerKey)
		if writer.NanoTimestamp != 0 {
			continue
		}

		writer.NanoTimestamp = records[i].NanoTimestamp
		k.SetWriter(ctx, writerKey, writer)
	}

	return nil
}
